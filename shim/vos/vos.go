// Package vos mirrors package os.  Every file-system call that can change
// state (and whole-file reads) is reported to an installed Hook before it is
// issued; the hook can log it, park the caller at a scheduler gate, take a
// crash snapshot, or make the call fail.  Calls are then passed through to
// the real file system.  With no hook installed the package is a pass-through.
package vos

import (
	"errors"
	"io"
	real "os"
	"path/filepath"
	"strings"
	"sync"
	"sync/atomic"
)

// Call describes one intercepted call.
type Call struct {
	Idx      int
	Op       string // open createtemp write writeat chmod sync close rename remove truncate mkdir readopen read
	Path     string
	Path2    string // rename target
	Flag     int
	Perm     real.FileMode
	N        int
	Data     []byte
	Off      int64
	Mutating bool
	// set by Hook.Before to inject a failure
	Err   error
	Short int // for write: bytes persisted before failing
}

// Hook observes and controls intercepted calls.
type Hook interface {
	Before(c *Call)
	After(c *Call, err error)
}

type box struct{ h Hook }

var hook atomic.Pointer[box]

// SetHook installs h (nil removes it).
func SetHook(h Hook) {
	if h == nil {
		hook.Store(nil)
		return
	}
	aliases.Clear()
	hook.Store(&box{h})
}

// aliases maps the randomly named files made by CreateTemp (full path and base name) to a stable
// name - the pattern without its random part - so that logs, gate labels and violation keys do not
// depend on the random digits, whatever naming pattern the code under test uses.
var aliases sync.Map

// Alias returns the stable name of a temporary file created through CreateTemp since the current
// hook was installed, or p itself.
func Alias(p string) string {
	if a, ok := aliases.Load(p); ok {
		return a.(string)
	}
	return p
}

func registerTemp(name, pattern string) {
	stable := pattern
	if i := strings.LastIndex(pattern, "*"); i >= 0 {
		stable = pattern[:i] + pattern[i+1:]
	}
	if stable == "" {
		stable = "tmp"
	}
	aliases.Store(name, filepath.Join(filepath.Dir(name), stable))
	aliases.Store(filepath.Base(name), stable)
}

func begin(c *Call) *Call {
	b := hook.Load()
	if b == nil {
		return nil
	}
	b.h.Before(c)
	if c.Err != nil {
		// give an injected failure the shape the real call would give it
		var pe *real.PathError
		var le *real.LinkError
		if !errors.As(c.Err, &pe) && !errors.As(c.Err, &le) {
			if c.Op == "rename" {
				c.Err = &real.LinkError{Op: "rename", Old: c.Path, New: c.Path2, Err: c.Err}
			} else {
				c.Err = &real.PathError{Op: c.Op, Path: c.Path, Err: c.Err}
			}
		}
	}
	return c
}

func end(c *Call, err error) {
	if c == nil {
		return
	}
	if b := hook.Load(); b != nil {
		b.h.After(c, err)
	}
}

// File wraps *os.File so that its mutating methods are intercepted.
type File struct {
	*real.File
	path string
}

var (
	Stdin  = real.Stdin
	Stdout = real.Stdout
	Stderr = real.Stderr
	Args   = real.Args
)

func wrap(f *real.File, err error, path string) (*File, error) {
	if err != nil || f == nil {
		return nil, err
	}
	return &File{File: f, path: path}, nil
}

func NewFile(fd uintptr, name string) *File {
	f := real.NewFile(fd, name)
	if f == nil {
		return nil
	}
	return &File{File: f, path: name}
}

func Open(name string) (*File, error) {
	c := begin(&Call{Op: "open", Path: name, Flag: real.O_RDONLY})
	if c != nil && c.Err != nil {
		end(c, c.Err)
		return nil, c.Err
	}
	f, err := real.Open(name)
	end(c, err)
	return wrap(f, err, name)
}

func OpenFile(name string, flag int, perm real.FileMode) (*File, error) {
	mut := flag&(real.O_WRONLY|real.O_RDWR|real.O_CREATE|real.O_TRUNC|real.O_APPEND) != 0
	c := begin(&Call{Op: "open", Path: name, Flag: flag, Perm: perm, Mutating: mut})
	if c != nil && c.Err != nil {
		end(c, c.Err)
		return nil, c.Err
	}
	f, err := real.OpenFile(name, flag, perm)
	end(c, err)
	return wrap(f, err, name)
}

func Create(name string) (*File, error) {
	return OpenFile(name, real.O_RDWR|real.O_CREATE|real.O_TRUNC, 0666)
}

func CreateTemp(dir, pattern string) (*File, error) {
	c := begin(&Call{Op: "createtemp", Path: dir, Path2: pattern, Flag: real.O_RDWR | real.O_CREATE | real.O_EXCL, Perm: 0600, Mutating: true})
	if c != nil && c.Err != nil {
		end(c, c.Err)
		return nil, c.Err
	}
	f, err := real.CreateTemp(dir, pattern)
	if c != nil && f != nil {
		c.Path = f.Name()
		registerTemp(f.Name(), pattern)
	}
	end(c, err)
	if err != nil {
		return nil, err
	}
	return &File{File: f, path: f.Name()}, nil
}

func (f *File) Write(b []byte) (int, error) {
	c := begin(&Call{Op: "write", Path: f.path, N: len(b), Data: b, Mutating: true})
	if c != nil && c.Err != nil {
		n := 0
		if c.Short > 0 {
			n, _ = f.File.Write(b[:c.Short])
		}
		end(c, c.Err)
		return n, c.Err
	}
	n, err := f.File.Write(b)
	end(c, err)
	return n, err
}

func (f *File) WriteString(s string) (int, error) { return f.Write([]byte(s)) }

func (f *File) WriteAt(b []byte, off int64) (int, error) {
	c := begin(&Call{Op: "writeat", Path: f.path, N: len(b), Data: b, Off: off, Mutating: true})
	if c != nil && c.Err != nil {
		n := 0
		if c.Short > 0 {
			n, _ = f.File.WriteAt(b[:c.Short], off)
		}
		end(c, c.Err)
		return n, c.Err
	}
	n, err := f.File.WriteAt(b, off)
	end(c, err)
	return n, err
}

// ReadFrom keeps io.Copy(f, r) going through Write.
func (f *File) ReadFrom(r io.Reader) (int64, error) {
	return io.Copy(struct{ io.Writer }{f}, r)
}

func (f *File) Sync() error {
	c := begin(&Call{Op: "sync", Path: f.path, Mutating: true})
	if c != nil && c.Err != nil {
		end(c, c.Err)
		return c.Err
	}
	err := f.File.Sync()
	end(c, err)
	return err
}

func (f *File) Close() error {
	if f == nil {
		return real.ErrInvalid
	}
	c := begin(&Call{Op: "close", Path: f.path, Mutating: true})
	if c != nil && c.Err != nil {
		f.File.Close() // the descriptor is gone either way
		end(c, c.Err)
		return c.Err
	}
	err := f.File.Close()
	end(c, err)
	return err
}

func (f *File) Chmod(mode real.FileMode) error {
	c := begin(&Call{Op: "chmod", Path: f.path, Perm: mode, Mutating: true})
	if c != nil && c.Err != nil {
		end(c, c.Err)
		return c.Err
	}
	err := f.File.Chmod(mode)
	end(c, err)
	return err
}

func (f *File) Truncate(size int64) error {
	c := begin(&Call{Op: "truncate", Path: f.path, Off: size, Mutating: true})
	if c != nil && c.Err != nil {
		end(c, c.Err)
		return c.Err
	}
	err := f.File.Truncate(size)
	end(c, err)
	return err
}

func WriteFile(name string, data []byte, perm real.FileMode) error {
	f, err := OpenFile(name, real.O_WRONLY|real.O_CREATE|real.O_TRUNC, perm)
	if err != nil {
		return err
	}
	_, err = f.Write(data)
	if err1 := f.Close(); err1 != nil && err == nil {
		err = err1
	}
	return err
}

// ReadFile is split into an open step and a read step so that a writer that
// modified the file in place between them would be observed.
func ReadFile(name string) ([]byte, error) {
	c := begin(&Call{Op: "readopen", Path: name})
	if c != nil && c.Err != nil {
		end(c, c.Err)
		return nil, c.Err
	}
	f, err := real.Open(name)
	end(c, err)
	if err != nil {
		return nil, err
	}
	defer f.Close()
	c = begin(&Call{Op: "read", Path: name})
	if c != nil && c.Err != nil {
		end(c, c.Err)
		return nil, c.Err
	}
	data, err := io.ReadAll(f)
	end(c, err)
	return data, err
}

func Rename(oldpath, newpath string) error {
	c := begin(&Call{Op: "rename", Path: oldpath, Path2: newpath, Mutating: true})
	if c != nil && c.Err != nil {
		end(c, c.Err)
		return c.Err
	}
	err := real.Rename(oldpath, newpath)
	end(c, err)
	return err
}

func Remove(name string) error {
	c := begin(&Call{Op: "remove", Path: name, Mutating: true})
	if c != nil && c.Err != nil {
		end(c, c.Err)
		return c.Err
	}
	err := real.Remove(name)
	end(c, err)
	return err
}

func RemoveAll(name string) error {
	c := begin(&Call{Op: "remove", Path: name, Mutating: true})
	if c != nil && c.Err != nil {
		end(c, c.Err)
		return c.Err
	}
	err := real.RemoveAll(name)
	end(c, err)
	return err
}

func Truncate(name string, size int64) error {
	c := begin(&Call{Op: "truncate", Path: name, Off: size, Mutating: true})
	if c != nil && c.Err != nil {
		end(c, c.Err)
		return c.Err
	}
	err := real.Truncate(name, size)
	end(c, err)
	return err
}

func Chmod(name string, mode real.FileMode) error {
	c := begin(&Call{Op: "chmod", Path: name, Perm: mode, Mutating: true})
	if c != nil && c.Err != nil {
		end(c, c.Err)
		return c.Err
	}
	err := real.Chmod(name, mode)
	end(c, err)
	return err
}

func Mkdir(name string, perm real.FileMode) error {
	c := begin(&Call{Op: "mkdir", Path: name, Perm: perm, Mutating: true})
	if c != nil && c.Err != nil {
		end(c, c.Err)
		return c.Err
	}
	err := real.Mkdir(name, perm)
	end(c, err)
	return err
}

func MkdirAll(name string, perm real.FileMode) error {
	c := begin(&Call{Op: "mkdir", Path: name, Perm: perm, Mutating: true})
	if c != nil && c.Err != nil {
		end(c, c.Err)
		return c.Err
	}
	err := real.MkdirAll(name, perm)
	end(c, err)
	return err
}
