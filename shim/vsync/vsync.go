// Package vsync mirrors package sync.  Mutex and RWMutex acquires are gates of
// the controlled scheduler (verif/sched); everything else is the real thing.
// With no controlled execution active all operations are pass-through, so the
// same build serves free-running -race passes.
package vsync

import (
	"sync"
	"sync/atomic"
	"time"

	"verif/sched"
)

type (
	WaitGroup = sync.WaitGroup
	Once      = sync.Once
	Cond      = sync.Cond
	Locker    = sync.Locker
	Map       = sync.Map
	Pool      = sync.Pool
)

func NewCond(l Locker) *Cond                                   { return sync.NewCond(l) }
func OnceFunc(f func()) func()                                 { return sync.OnceFunc(f) }
func OnceValue[T any](f func() T) func() T                     { return sync.OnceValue(f) }
func OnceValues[T1, T2 any](f func() (T1, T2)) func() (T1, T2) { return sync.OnceValues(f) }

// acquire takes the real lock. During the teardown of a controlled execution (every thread runs free)
// a contended acquire polls with sleeps instead of blocking in the runtime: the sleeps are visible to
// the bubble's clock, and a goroutine that can never get the lock (a deadlock in the code under
// test) is unwound after hours of virtual time instead of taking the whole process down with
// "all goroutines are asleep".
func acquire(try func() bool, lock func()) {
	if !sched.FreeMode() {
		lock()
		return
	}
	d := 100 * time.Microsecond
	for i := 0; !try(); i++ {
		if i > 400 {
			sched.GiveUp("a mutex acquire never succeeded")
			return
		}
		time.Sleep(d)
		if d < time.Minute {
			d *= 2
		}
	}
}

// Mutex is sync.Mutex with its acquire hooked.
type Mutex struct {
	real    sync.Mutex
	st      sched.MuState
	phantom atomic.Int32
}

func (m *Mutex) Lock() {
	sched.MuLock(&m.st, false)
	if sched.Abandoning() {
		// the execution is being abandoned (deadlock found, or a runaway thread): nobody may block any
		// more, and what the real mutex holds no longer matters
		m.real.TryLock()
		return
	}
	acquire(m.real.TryLock, m.real.Lock)
}

func (m *Mutex) Unlock() {
	sched.MuUnlock(&m.st, false)
	if sched.Abandoning() {
		// leave the real mutex unlocked whatever its state was (unlocking an unlocked mutex is fatal)
		m.real.TryLock()
		m.real.Unlock()
		return
	}
	m.real.Unlock()
}

func (m *Mutex) TryLock() bool {
	ok := m.real.TryLock()
	if ok {
		sched.MuTryLock(&m.st)
	}
	return ok
}

// SetName gives the mutex a stable descriptor (optional; harness use).
func (m *Mutex) SetName(n string) { m.st.Name = n }

// RWMutex is sync.RWMutex with its acquires hooked.
type RWMutex struct {
	real    sync.RWMutex
	st      sched.MuState
	phantom atomic.Int32
}

func (m *RWMutex) Lock() {
	sched.MuLock(&m.st, false)
	if sched.Abandoning() {
		if !m.real.TryLock() {
			m.phantom.Add(1)
		}
		return
	}
	acquire(m.real.TryLock, m.real.Lock)
}

func (m *RWMutex) Unlock() {
	sched.MuUnlock(&m.st, false)
	if m.phantom.Load() > 0 {
		m.phantom.Add(-1)
		return
	}
	m.real.Unlock()
}

func (m *RWMutex) RLock() {
	sched.MuLock(&m.st, true)
	if sched.Abandoning() {
		if !m.real.TryRLock() {
			m.phantom.Add(1)
		}
		return
	}
	acquire(m.real.TryRLock, m.real.RLock)
}

func (m *RWMutex) RUnlock() {
	sched.MuUnlock(&m.st, true)
	if m.phantom.Load() > 0 {
		m.phantom.Add(-1)
		return
	}
	m.real.RUnlock()
}

func (m *RWMutex) TryLock() bool {
	ok := m.real.TryLock()
	if ok {
		sched.MuTryLock(&m.st)
	}
	return ok
}

func (m *RWMutex) TryRLock() bool { return m.real.TryRLock() }

func (m *RWMutex) RLocker() Locker { return (*rlocker)(m) }

type rlocker RWMutex

func (r *rlocker) Lock()   { (*RWMutex)(r).RLock() }
func (r *rlocker) Unlock() { (*RWMutex)(r).RUnlock() }
