// Package vrand mirrors math/rand.  Under a controlled execution the
// top-level draws become explorer choices over a small representative set
// (minimum, middle, maximum of the range); running free they are the real
// generator.
package vrand

import (
	real "math/rand"

	"verif/sched"
)

// pick3 maps an explorer choice to {mid, min, max} of [0,n): the default
// (cost 0) is the middle of the range.
func pick3(label string, n int64) (int64, bool) {
	if sched.Current() == nil || n <= 0 {
		return 0, false
	}
	if n <= 3 {
		return int64(sched.Choose(label, int(n))), true
	}
	switch sched.Choose(label, 3) {
	case 1:
		return 0, true
	case 2:
		return n - 1, true
	}
	return n / 2, true
}

func Intn(n int) int {
	if v, ok := pick3("rand.Intn", int64(n)); ok {
		return int(v)
	}
	return real.Intn(n)
}

func Int63n(n int64) int64 {
	if v, ok := pick3("rand.Int63n", n); ok {
		return v
	}
	return real.Int63n(n)
}

func Int31n(n int32) int32 {
	if v, ok := pick3("rand.Int31n", int64(n)); ok {
		return int32(v)
	}
	return real.Int31n(n)
}

// The remaining draws do not influence control flow in setec (audit entry
// ids); under a controlled execution they return a deterministic counter so
// that replays are bit-identical.
func det() (uint64, bool) { return sched.Seq() }

func Uint64() uint64 {
	if v, ok := det(); ok {
		return v
	}
	return real.Uint64()
}
func Uint32() uint32 {
	if v, ok := det(); ok {
		return uint32(v)
	}
	return real.Uint32()
}
func Int63() int64 {
	if v, ok := det(); ok {
		return int64(v)
	}
	return real.Int63()
}
func Int31() int32 {
	if v, ok := det(); ok {
		return int32(v)
	}
	return real.Int31()
}
func Int() int {
	if v, ok := det(); ok {
		return int(v)
	}
	return real.Int()
}
func Float64() float64 {
	if _, ok := det(); ok {
		return 0.5
	}
	return real.Float64()
}
func Perm(n int) []int {
	if _, ok := det(); ok {
		p := make([]int, n)
		for i := range p {
			p[i] = i
		}
		return p
	}
	return real.Perm(n)
}
func Shuffle(n int, swap func(i, j int)) {
	if _, ok := det(); ok {
		return
	}
	real.Shuffle(n, swap)
}
