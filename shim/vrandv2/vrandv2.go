// Package vrandv2 mirrors math/rand/v2 the way vrand mirrors math/rand: under a controlled
// execution the bounded top-level draws become explorer choices over {middle, minimum, maximum}
// of the range and the unbounded ones a deterministic counter; running free they are the real
// generator.
package vrandv2

import (
	real "math/rand/v2"

	"verif/sched"
)

func pick3(label string, n uint64) (uint64, bool) {
	if sched.Current() == nil || n == 0 {
		return 0, false
	}
	if n <= 3 {
		return uint64(sched.Choose(label, int(n))), true
	}
	switch sched.Choose(label, 3) {
	case 1:
		return 0, true
	case 2:
		return n - 1, true
	}
	return n / 2, true
}

type intType interface {
	~int | ~int8 | ~int16 | ~int32 | ~int64 | ~uint | ~uint8 | ~uint16 | ~uint32 | ~uint64 | ~uintptr
}

func N[Int intType](n Int) Int {
	if n > 0 {
		if v, ok := pick3("rand.N", uint64(n)); ok {
			return Int(v)
		}
	}
	return real.N(n)
}

func IntN(n int) int {
	if n > 0 {
		if v, ok := pick3("rand.IntN", uint64(n)); ok {
			return int(v)
		}
	}
	return real.IntN(n)
}

func Int64N(n int64) int64 {
	if n > 0 {
		if v, ok := pick3("rand.Int64N", uint64(n)); ok {
			return int64(v)
		}
	}
	return real.Int64N(n)
}

func Int32N(n int32) int32 {
	if n > 0 {
		if v, ok := pick3("rand.Int32N", uint64(n)); ok {
			return int32(v)
		}
	}
	return real.Int32N(n)
}

func UintN(n uint) uint {
	if v, ok := pick3("rand.UintN", uint64(n)); ok {
		return uint(v)
	}
	return real.UintN(n)
}

func Uint64N(n uint64) uint64 {
	if v, ok := pick3("rand.Uint64N", n); ok {
		return v
	}
	return real.Uint64N(n)
}

func Uint32N(n uint32) uint32 {
	if v, ok := pick3("rand.Uint32N", uint64(n)); ok {
		return uint32(v)
	}
	return real.Uint32N(n)
}

func det() (uint64, bool) { return sched.Seq() }

func Uint64() uint64 {
	if v, ok := det(); ok {
		return v
	}
	return real.Uint64()
}
func Uint32() uint32 {
	if v, ok := det(); ok {
		return uint32(v)
	}
	return real.Uint32()
}
func Uint() uint {
	if v, ok := det(); ok {
		return uint(v)
	}
	return real.Uint()
}
func Int64() int64 {
	if v, ok := det(); ok {
		return int64(v >> 1)
	}
	return real.Int64()
}
func Int32() int32 {
	if v, ok := det(); ok {
		return int32(v & 0x7fffffff)
	}
	return real.Int32()
}
func Int() int {
	if v, ok := det(); ok {
		return int(v >> 1)
	}
	return real.Int()
}
func Float64() float64 {
	if v, ok := det(); ok {
		return float64(v%1000) / 1000
	}
	return real.Float64()
}
func Float32() float32 {
	if v, ok := det(); ok {
		return float32(v%1000) / 1000
	}
	return real.Float32()
}

var (
	ExpFloat64  = real.ExpFloat64
	NormFloat64 = real.NormFloat64
	Perm        = real.Perm
	Shuffle     = real.Shuffle
	New         = real.New
	NewPCG      = real.NewPCG
	NewChaCha8  = real.NewChaCha8
	NewZipf     = real.NewZipf
)

type (
	ChaCha8 = real.ChaCha8
	PCG     = real.PCG
	Rand    = real.Rand
	Source  = real.Source
	Zipf    = real.Zipf
)
