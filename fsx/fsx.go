// Package fsx enumerates crash points, torn writes, power-loss variants and
// injected faults over the file-system calls that real code issues through the
// vos shim.  Calls are passed through to a real scratch directory; before every
// mutating call the directory is snapshotted, so one clean run yields every
// "killed before call k" state.
package fsx

import (
	"errors"
	"fmt"
	"os"
	"path/filepath"
	"sort"
	"strings"
	"sync"
	"syscall"

	"verif/shim/vos"
)

// FileState is one file of a snapshot.
type FileState struct {
	Data    []byte
	Mode    os.FileMode
	Ino     uint64
	Synced  []byte // contents at the last fsync of this inode
	HasSync bool
}

// Snapshot is the state of the observed directory.
type Snapshot map[string]FileState

// Rec is one recorded call.
type Rec struct {
	Op       string
	Path     string // relative to the observed directory when inside it
	Path2    string
	Flag     int
	Perm     os.FileMode
	N        int
	Data     []byte
	Off      int64
	Mutating bool
	Inside   bool
	Err      string
}

// canon strips the random digits of temporary file names.
func canon(p string) string {
	if a := vos.Alias(p); a != p {
		return a
	}
	if a := vos.Alias(filepath.Base(p)); a != filepath.Base(p) {
		return filepath.Join(filepath.Dir(p), a)
	}
	if i := strings.Index(p, ".tmp"); i >= 0 {
		j := i + 4
		for j < len(p) && p[j] >= '0' && p[j] <= '9' {
			j++
		}
		return p[:i+4] + p[j:]
	}
	return p
}

func (r Rec) String() string {
	s := r.Op + " " + canon(r.Path)
	if r.Path2 != "" {
		s += " -> " + canon(r.Path2)
	}
	if r.Op == "write" || r.Op == "writeat" {
		s += fmt.Sprintf(" [%dB]", r.N)
	}
	if r.Op == "open" || r.Op == "createtemp" {
		s += fmt.Sprintf(" flag=%#x perm=%o", r.Flag, r.Perm)
	}
	if r.Op == "chmod" {
		s += fmt.Sprintf(" %o", r.Perm)
	}
	if r.Err != "" {
		e := r.Err
		if i := strings.LastIndex(e, ": "); i >= 0 {
			e = e[i+2:] // drop the path prefix of PathError/LinkError texts (scratch directories differ per run)
		}
		s += " ERR(" + e + ")"
	}
	return s
}

// ErrInjected is the error returned by injected faults.
var ErrInjected = errors.New("injected I/O error (fsx)")

// Recorder is a vos.Hook.
type Recorder struct {
	Dir string

	mu     sync.Mutex
	Calls  []Rec
	Snaps  []Snapshot // Snaps[i] = directory before the i-th mutating inside call
	MutIdx []int      // index into Calls of the i-th mutating inside call
	synced map[uint64][]byte

	// FaultAt is the ordinal (among mutating inside calls) of the call to fail; -1 = none.
	FaultAt    int
	FaultShort int // bytes persisted by a failing write
	Fired      bool
	// FaultSticky: once the fault has fired, every later call inside the directory - reads included -
	// fails too (a cause that outlasts the call that met it first: no descriptors, an unreachable
	// directory, a dying disk) until the hook is removed.
	FaultSticky bool
}

// NewRecorder observes dir.
func NewRecorder(dir string) *Recorder {
	return &Recorder{Dir: dir, FaultAt: -1, synced: map[uint64][]byte{}}
}

func (r *Recorder) rel(p string) (string, bool) {
	if p == "" {
		return "", false
	}
	if p == r.Dir {
		return ".", true
	}
	if strings.HasPrefix(p, r.Dir+string(filepath.Separator)) {
		return p[len(r.Dir)+1:], true
	}
	return p, false
}

// Snap reads the directory.
func (r *Recorder) Snap() Snapshot {
	s := Snapshot{}
	ents, _ := os.ReadDir(r.Dir)
	for _, e := range ents {
		if e.IsDir() {
			continue
		}
		p := filepath.Join(r.Dir, e.Name())
		fi, err := os.Lstat(p)
		if err != nil {
			continue
		}
		data, _ := os.ReadFile(p)
		fs := FileState{Data: data, Mode: fi.Mode()}
		if st, ok := fi.Sys().(*syscall.Stat_t); ok {
			fs.Ino = st.Ino
			if sd, ok := r.synced[st.Ino]; ok {
				fs.Synced, fs.HasSync = sd, true
			}
		}
		s[e.Name()] = fs
	}
	return s
}

func (r *Recorder) Before(c *vos.Call) {
	r.mu.Lock()
	defer r.mu.Unlock()
	p1, in1 := r.rel(c.Path)
	p2, in2 := r.rel(c.Path2)
	if c.Op == "createtemp" {
		p2, in2 = c.Path2, false // pattern, not a path
	}
	rec := Rec{Op: c.Op, Path: p1, Path2: p2, Flag: c.Flag, Perm: c.Perm, N: c.N, Off: c.Off, Mutating: c.Mutating, Inside: in1 || in2}
	if c.Data != nil {
		rec.Data = append([]byte(nil), c.Data...)
	}
	if r.FaultSticky && r.Fired && rec.Inside {
		c.Err = ErrInjected
	}
	if rec.Inside && rec.Mutating {
		ord := len(r.Snaps)
		r.Snaps = append(r.Snaps, r.Snap())
		r.MutIdx = append(r.MutIdx, len(r.Calls))
		if ord == r.FaultAt {
			c.Err = ErrInjected
			c.Short = r.FaultShort
			r.Fired = true
		}
	}
	r.Calls = append(r.Calls, rec)
	c.Idx = len(r.Calls) - 1
}

func (r *Recorder) After(c *vos.Call, err error) {
	r.mu.Lock()
	defer r.mu.Unlock()
	if c.Idx < len(r.Calls) {
		rec := &r.Calls[c.Idx]
		if err != nil {
			rec.Err = err.Error()
		}
		if c.Op == "createtemp" && err == nil {
			rec.Path, rec.Inside = r.rel(c.Path)
		}
	}
	if c.Op == "sync" && err == nil {
		if fi, e := os.Stat(c.Path); e == nil {
			if st, ok := fi.Sys().(*syscall.Stat_t); ok {
				data, _ := os.ReadFile(c.Path)
				r.synced[st.Ino] = data
			}
		}
	}
}

// Baseline marks everything currently in the directory as durable.
func (r *Recorder) Baseline() {
	ents, _ := os.ReadDir(r.Dir)
	for _, e := range ents {
		p := filepath.Join(r.Dir, e.Name())
		if fi, err := os.Lstat(p); err == nil && !fi.IsDir() {
			if st, ok := fi.Sys().(*syscall.Stat_t); ok {
				data, _ := os.ReadFile(p)
				r.synced[st.Ino] = data
			}
		}
	}
}

// Log renders the call log.
func (r *Recorder) Log() []string {
	var out []string
	for _, c := range r.Calls {
		if c.Inside {
			out = append(out, c.String())
		}
	}
	return out
}

// Variant is one post-crash directory state.
type Variant struct {
	Desc  string
	Files Snapshot
}

func clone(s Snapshot) Snapshot {
	o := Snapshot{}
	for k, v := range s {
		o[k] = v
	}
	return o
}

// powerLoss adds, for a state, every variant in which a non-empty subset of
// the files with unsynced data lost that data (directory operations are kept).
func powerLoss(base Variant) []Variant {
	var dirty []string
	for name, f := range base.Files {
		if !f.HasSync || string(f.Synced) != string(f.Data) {
			dirty = append(dirty, name)
		}
	}
	sort.Strings(dirty)
	var out []Variant
	if len(dirty) > 4 {
		dirty = dirty[:4]
	}
	for mask := 1; mask < 1<<len(dirty); mask++ {
		v := Variant{Desc: base.Desc + " +powerloss{", Files: clone(base.Files)}
		for i, name := range dirty {
			if mask&(1<<i) != 0 {
				f := v.Files[name]
				if f.HasSync {
					f.Data = f.Synced
				} else {
					f.Data = nil
				}
				v.Files[name] = f
				v.Desc += name + " "
			}
		}
		v.Desc += "}"
		out = append(out, v)
	}
	return out
}

// CrashVariants returns every post-crash state of a clean run: killed before
// each mutating call (and after the last), torn variants of each write, and
// power-loss variants of all of those.  final is the directory after the run.
func (r *Recorder) CrashVariants(final Snapshot, withPowerLoss bool) []Variant {
	var out []Variant
	add := func(v Variant) {
		out = append(out, v)
		if withPowerLoss {
			out = append(out, powerLoss(v)...)
		}
	}
	for i, s := range r.Snaps {
		c := r.Calls[r.MutIdx[i]]
		add(Variant{Desc: fmt.Sprintf("killed before call %d (%s)", i, c.String()), Files: s})
		if (c.Op == "write" || c.Op == "writeat") && len(c.Data) > 1 {
			for _, j := range tornSizes(len(c.Data)) {
				v := Variant{Desc: fmt.Sprintf("killed during call %d (%s) after %d bytes", i, c.String(), j), Files: clone(s)}
				f := v.Files[c.Path]
				nd := append([]byte(nil), f.Data...)
				if c.Op == "write" {
					nd = append(nd, c.Data[:j]...)
				} else {
					for int64(len(nd)) < c.Off+int64(j) {
						nd = append(nd, 0)
					}
					copy(nd[c.Off:], c.Data[:j])
				}
				f.Data = nd
				v.Files[c.Path] = f
				add(v)
			}
		}
	}
	add(Variant{Desc: "killed after the last call", Files: final})
	return out
}

func tornSizes(n int) []int {
	set := map[int]bool{1: true, n / 2: true, n - 1: true}
	var out []int
	for j := range set {
		if j > 0 && j < n {
			out = append(out, j)
		}
	}
	sort.Ints(out)
	return out
}

// Materialize writes a variant into a fresh directory.
func Materialize(dir string, v Variant) error {
	ents, _ := os.ReadDir(dir)
	for _, e := range ents {
		os.RemoveAll(filepath.Join(dir, e.Name()))
	}
	for name, f := range v.Files {
		if err := os.WriteFile(filepath.Join(dir, name), f.Data, f.Mode.Perm()|0o600); err != nil {
			return err
		}
	}
	return nil
}

// CheckAtomicProtocol evaluates the trace predicate of C04 on a clean log of
// an operation that replaced the file `live`: new contents are written to a
// different file in the same directory, that file is fsynced after its last
// write and before the rename, and the live path is never opened for writing,
// truncated or removed.
func (r *Recorder) CheckAtomicProtocol(live string) error {
	if err := r.CheckNotInPlace(live); err != nil {
		return err
	}
	// among the calls that succeeded: the last write of the new contents, then an fsync of that file, then the rename
	var tmp string
	lastWrite, syncAt, renameAt := -1, -1, -1
	for i, c := range r.Calls {
		if !c.Inside || c.Err != "" {
			continue
		}
		switch c.Op {
		case "write", "writeat":
			lastWrite = i
			tmp = c.Path
			syncAt = -1
		case "sync":
			if c.Path == tmp {
				syncAt = i
			}
		case "rename":
			if c.Path2 == live {
				renameAt = i
				if c.Path != tmp {
					return fmt.Errorf("renamed %q over the live file, but the new contents were written to %q", c.Path, tmp)
				}
			}
		}
	}
	if renameAt < 0 {
		return fmt.Errorf("no rename onto the live file in a successful update; log: %v", r.Log())
	}
	if lastWrite < 0 || lastWrite > renameAt {
		return fmt.Errorf("new contents not written before the rename; log: %v", r.Log())
	}
	if syncAt < lastWrite || syncAt > renameAt {
		return fmt.Errorf("new contents not flushed (fsync) after the last write and before the rename; log: %v", r.Log())
	}
	if strings.Contains(tmp, string(filepath.Separator)) {
		return fmt.Errorf("temporary file %q not in the same directory", tmp)
	}
	return nil
}

// CheckNotInPlace: the live path is never opened for writing, written, truncated or removed (attempts count).
func (r *Recorder) CheckNotInPlace(live string) error {
	for _, c := range r.Calls {
		if !c.Inside {
			continue
		}
		switch c.Op {
		case "open":
			if c.Path == live && c.Mutating {
				return fmt.Errorf("live file opened for writing in place (%s)", c)
			}
		case "truncate", "remove":
			if c.Path == live {
				return fmt.Errorf("live file %sd in place", c.Op)
			}
		case "write", "writeat":
			if c.Path == live {
				return fmt.Errorf("live file written in place (%s)", c)
			}
		}
	}
	return nil
}

// NumMutating is the number of mutating calls inside the directory.
func (r *Recorder) NumMutating() int { return len(r.Snaps) }
