package dbseq

import (
	"bytes"
	"fmt"
	"os"
	"path/filepath"
	"sync/atomic"
	"testing"

	"github.com/tailscale/setec/audit"
	"github.com/tailscale/setec/db"
	"github.com/tailscale/setec/types/api"

	"verif/hx"
	"verif/model"
	"verif/report"
	"verif/sched"
)

type seamSink struct{ buf bytes.Buffer }

func (g *seamSink) Write(p []byte) (int, error) {
	sched.Seam("audit.write")
	return g.buf.Write(p)
}

// c09Concurrent: "not modified exactly when the active version is V *at that moment*": a conditional get
// racing an activation must answer as of some single moment between its call and its return.
func c09Concurrent(t *testing.T, env *report.Env, rep *report.Report) {
	var scs []hx.Scenario
	for _, active := range []uint32{1, 2} {
		for _, v := range []uint32{1, 2, 3} {
			for _, target := range []uint32{1, 2} {
				active, v, target := active, v, target
				name := fmt.Sprintf("active=%d: getcond(a,%d) || activate(a,%d)", active, v, target)
				scs = append(scs, hx.Scenario{Name: name, Make: func() *sched.Harness {
					var d *db.DB
					var dir string
					var got getOut
					var clock atomic.Int64
					var gcCall, gcRet, actCall, actRet int64
					return &sched.Harness{
						Setup: func(x *sched.Exec) {
							clock.Store(0)
							gcCall, gcRet, actCall, actRet = 0, 0, 0, 0
							dir = hx.Scratch("c09c-")
							var err error
							d, err = db.Open(filepath.Join(dir, "db"), KEK, audit.New(&seamSink{}))
							if err != nil {
								panic(err)
							}
							su := hx.Super()
							d.Put(su, "a", []byte("one"))
							d.Put(su, "a", []byte("two"))
							d.Activate(su, "a", api.SecretVersion(active))
							x.Go("getter", func() {
								defer x.ReportPanic()
								gcCall = clock.Add(1)
								got = outOf(d.GetConditional(su, "a", api.SecretVersion(v)))
								gcRet = clock.Add(1)
							})
							x.Go("activator", func() {
								defer x.ReportPanic()
								actCall = clock.Add(1)
								d.Activate(su, "a", api.SecretVersion(target))
								actRet = clock.Add(1)
							})
						},
						Final: func(x *sched.Exec) error {
							defer os.RemoveAll(dir)
							vals := map[uint32]string{1: "one", 2: "two"}
							answer := func(act uint32) getOut {
								if act == v {
									return getOut{class: model.NotChanged}
								}
								return getOut{ver: act, val: vals[act]}
							}
							// moments the get may reflect: the initial active version unless the activation had
							// returned before the get was called; the new one unless the activation was called
							// after the get returned
							var ok []getOut
							if !(actRet < gcCall) {
								ok = append(ok, answer(active))
							}
							if !(actCall > gcRet) {
								ok = append(ok, answer(target))
							}
							x.Outcome = fmt.Sprintf("%v", got)
							for _, o := range ok {
								if o == got {
									return nil
								}
							}
							return fmt.Errorf("C09/not-a-single-moment: conditional get with V=%d returned %v; the active version was %d and became %d, so the only consistent answers are %v", v, got, active, target, ok)
						},
					}
				}})
			}
		}
	}
	if hx.ReplaySched(t, env, rep, scs) {
		return
	}
	hx.ExploreScenarios(t, env, rep, "conditional-get-racing-activation-all-interleavings", scs, -1, false, nil)
}
