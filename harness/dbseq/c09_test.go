package dbseq

import (
	"bytes"
	"context"
	"encoding/json"
	"fmt"
	"github.com/tailscale/setec/audit"
	"net/http"
	"net/http/httptest"
	"os"
	"path/filepath"
	"sort"
	"strings"
	"sync"
	"testing"

	"github.com/tailscale/setec/acl"
	"github.com/tailscale/setec/client/setec"
	"github.com/tailscale/setec/db"
	"github.com/tailscale/setec/server"
	"github.com/tailscale/setec/types/api"
	"tailscale.com/client/tailscale/apitype"
	"tailscale.com/tailcfg"

	"verif/hx"
	"verif/model"
	"verif/report"
)

// whoIsRules returns a WhoIs function granting exactly rules.
func whoIsRules(rules acl.Rules) func(context.Context, string) (*apitype.WhoIsResponse, error) {
	var raw []tailcfg.RawMessage
	for _, r := range rules {
		b, _ := json.Marshal(r)
		raw = append(raw, tailcfg.RawMessage(b))
	}
	return func(context.Context, string) (*apitype.WhoIsResponse, error) {
		return &apitype.WhoIsResponse{
			Node:        &tailcfg.Node{Name: "n.example.ts.net"},
			UserProfile: &tailcfg.UserProfile{ID: 1, LoginName: "u@example.com"},
			CapMap:      tailcfg.PeerCapMap{server.ACLCap: raw},
		}, nil
	}
}

// inprocClient returns a real setec.Client whose transport is the mux itself.
func inprocClient(mux *http.ServeMux) setec.Client {
	return setec.Client{Server: "http://setec.test", DoHTTP: func(r *http.Request) (*http.Response, error) {
		r.RemoteAddr = "100.64.0.7:4242"
		r.RequestURI = r.URL.RequestURI()
		rec := httptest.NewRecorder()
		mux.ServeHTTP(rec, r)
		return rec.Result(), nil
	}}
}

func newMux(d *db.DB, rules acl.Rules) *http.ServeMux {
	mux := http.NewServeMux()
	if _, err := server.New(context.Background(), server.Config{DB: d, WhoIs: whoIsRules(rules), Mux: mux}); err != nil {
		panic(err)
	}
	return mux
}

func condVersions(s *model.Secret) []uint32 {
	set := map[uint32]bool{0: true, 1<<32 - 1: true}
	if s != nil {
		for v := uint32(1); v <= s.Latest+1; v++ {
			set[v] = true
		}
	} else {
		set[1] = true
	}
	var out []uint32
	for v := range set {
		out = append(out, v)
	}
	sort.Slice(out, func(i, j int) bool { return out[i] < out[j] })
	return out
}

type getOut struct {
	class model.Class
	ver   uint32
	val   string
}

func (g getOut) String() string { return fmt.Sprintf("%v v%d %q", g.class, g.ver, g.val) }

func outOf(sv *api.SecretValue, err error) getOut {
	if err != nil {
		return getOut{class: hx.Classify(err)}
	}
	return getOut{ver: uint32(sv.Version), val: string(sv.Value)}
}

// wantCond is the oracle of C09.
func wantCond(k *model.KV, name string, v uint32, allowed bool) getOut {
	if !allowed {
		return getOut{class: model.Denied}
	}
	av, b, c := k.Get(name)
	if c != model.OK {
		return getOut{class: model.NotFound}
	}
	if v != 0 && v == av {
		return getOut{class: model.NotChanged}
	}
	return getOut{ver: av, val: b}
}

func checkC09(t *testing.T, env *report.Env, rep *report.Report) {
	c09Concurrent(t, env, rep)
	if env.Replay != "" {
		if b, _ := os.ReadFile(env.Replay); strings.Contains(string(b), "fileclient-hand-written-files") {
			c09Files(t, env, rep)
		}
		return
	}
	c09Files(t, env, rep)
	depth := 4
	if env.Thorough() {
		depth = 7
	}
	alpha := Alphabet([]string{"a", "b"}, []string{"", "x", "y"}, []uint32{1, 2, 3}, false)
	fs := &failSet{}
	sec := rep.Add(&report.Section{Name: fmt.Sprintf("conditional-get-all-states-depth%d", depth), Engine: "seqx", Exhaustive: true, Extra: map[string]int64{},
		Rule:  "every state of the BFS over put/activate/delete histories × name {a,b,zz} × V {0, every number 1..latest+1 (active, other existing, deleted, never-existing), 2^32-1} × caller {with get, without get} through db.GetConditional, the real HTTP handler + setec.Client, and a FileClient built from a Store-written cache; the same questions with an audit log that cannot be written (not-changed only for the active version, never a value); non-trivial = evaluations whose expected answer is not-changed or a value",
		Bound: fmt.Sprintf("depth %d", depth)})
	states, trans := BFS(alpha, depth, 16, nil, fs.add)
	sec.States, sec.Transitions = int64(len(states)), trans
	yes := acl.Rules{{Action: []acl.Action{acl.ActionGet}, Secret: []acl.Secret{"*"}}}
	no := acl.Rules{{Action: []acl.Action{acl.ActionInfo, acl.ActionPut, acl.ActionActivate, acl.ActionDelete}, Secret: []acl.Secret{"*"}}}
	var mu sync.Mutex
	var wg sync.WaitGroup
	ch := make(chan *State)
	for w := 0; w < 16; w++ {
		wg.Add(1)
		go func() {
			defer wg.Done()
			dir := hx.Scratch("c09-")
			defer os.RemoveAll(dir)
			for s := range ch {
				d, _, err := OpenFile(dir, s.File)
				if err != nil {
					fs.add("reopen-failed", err.Error(), s.Hist)
					continue
				}
				var evals, nontriv int64
				for _, allowed := range []bool{true, false} {
					rules := yes
					if !allowed {
						rules = no
					}
					caller := db.Caller{Principal: hx.Super().Principal, Permissions: rules}
					cl := inprocClient(newMux(d, rules))
					for _, name := range []string{"a", "b", "zz"} {
						for _, v := range condVersions(s.Model.S[name]) {
							want := wantCond(s.Model, name, v, allowed)
							if want.class == model.NotChanged || want.class == model.OK {
								nontriv++
							}
							// (i) database API
							before := hx.DumpKey(d)
							got := outOf(d.GetConditional(caller, name, api.SecretVersion(v)))
							evals++
							if v == 0 && allowed {
								// at the DB API version 0 simply never equals the active version
							}
							if got != want {
								fs.add("db-getconditional", fmt.Sprintf("state %s: GetConditional(%s,%d) allowed=%v: got %v want %v", s.Key, name, v, allowed, got, want), s.Hist)
							}
							// (ii) HTTP handler + real client
							got = outOf(cl.GetIfChanged(context.Background(), name, api.SecretVersion(v)))
							evals++
							if got != want {
								fs.add("client-getifchanged", fmt.Sprintf("state %s: Client.GetIfChanged(%s,%d) allowed=%v: got %v want %v", s.Key, name, v, allowed, got, want), s.Hist)
							}
							if hx.DumpKey(d) != before {
								fs.add("get-changed-state", fmt.Sprintf("state %s: conditional get of %s changed the database", s.Key, name), s.Hist)
							}
						}
					}
				}
				// (i') the same questions while the audit log cannot be written: "not changed" may still only be
				// said when V is the active version (that answer needs no record); every other answer fails
				if db2, err := db.Open(filepath.Join(dir, "db"), KEK, audit.New(brokenSink{})); err == nil {
					caller := db.Caller{Principal: hx.Super().Principal, Permissions: yes}
					cl2 := inprocClient(newMux(db2, yes))
					for _, name := range []string{"a", "b", "zz"} {
						for _, v := range condVersions(s.Model.S[name]) {
							want := wantCond(s.Model, name, v, true)
							for _, via := range []string{"db.GetConditional", "Client.GetIfChanged"} {
								var got getOut
								if via == "db.GetConditional" {
									got = outOf(db2.GetConditional(caller, name, api.SecretVersion(v)))
								} else {
									got = outOf(cl2.GetIfChanged(context.Background(), name, api.SecretVersion(v)))
								}
								evals++
								switch {
								case got.class == model.NotChanged && want.class != model.NotChanged:
									fs.add("not-changed-without-audit", fmt.Sprintf("state %s, audit log cannot be written: %s(%s,%d) answered not-changed; with a working log the answer is %v", s.Key, via, name, v, want), s.Hist)
								case got.class == model.OK:
									fs.add("value-without-audit", fmt.Sprintf("state %s, audit log cannot be written: %s(%s,%d) returned a value", s.Key, via, name, v), s.Hist)
								}
							}
						}
					}
				}
				// (iii) FileClient from a Store-written cache of this state
				var names []string
				for n := range s.Model.S {
					names = append(names, n)
				}
				sort.Strings(names)
				if len(names) > 0 {
					cpath := filepath.Join(dir, "cache.json")
					os.Remove(cpath)
					fc, _ := setec.NewFileCache(cpath)
					st, err := setec.NewStore(context.Background(), setec.StoreConfig{
						Client: inprocClient(newMux(d, yes)), Secrets: names, Cache: fc, PollInterval: -1, Logf: func(string, ...any) {},
					})
					if err != nil {
						fs.add("store-from-state", fmt.Sprintf("state %s: NewStore: %v", s.Key, err), s.Hist)
					} else {
						st.Close()
						fcl, err := setec.NewFileClient(cpath)
						if err != nil {
							fs.add("fileclient-open", fmt.Sprintf("state %s: %v", s.Key, err), s.Hist)
						} else {
							for _, name := range []string{"a", "b", "zz"} {
								for _, v := range condVersions(s.Model.S[name]) {
									want := wantCond(s.Model, name, v, true)
									if av, b, c := s.Model.Get(name); c == model.OK && b == "" {
										_ = av
										want = getOut{class: model.NotFound} // empty secrets are not served by a file client (C13/C18: "when non-empty")
									}
									if want.class == model.NotChanged || want.class == model.OK {
										nontriv++
									}
									got := outOf(fcl.GetIfChanged(context.Background(), name, api.SecretVersion(v)))
									evals++
									if got != want {
										fs.add("fileclient-getifchanged", fmt.Sprintf("state %s: FileClient.GetIfChanged(%s,%d): got %v want %v", s.Key, name, v, got, want), s.Hist)
									}
								}
							}
						}
					}
				}
				mu.Lock()
				sec.Evaluations += evals
				sec.Nontrivial += nontriv
				if len(sec.Samples) < 3 && len(s.Hist) == depth {
					sec.Samples = append(sec.Samples, map[string]any{"state": s.Key, "history": histString(s.Hist), "probes": "GetConditional/Client.GetIfChanged/FileClient.GetIfChanged for a,b,zz × V"})
				}
				mu.Unlock()
			}
		}()
	}
	for _, s := range states {
		ch <- s
	}
	close(ch)
	wg.Wait()
	fs.flush(rep, sec.Name, 3)
	_ = bytes.Equal
}
