package dbseq

import (
	"bytes"
	"encoding/base64"
	"encoding/json"
	"errors"
	"fmt"
	"github.com/tailscale/setec/audit"
	"os"
	"path/filepath"
	"sort"
	"strconv"
	"strings"
	"sync"
	"testing"

	"github.com/tailscale/setec/db"
	"github.com/tink-crypto/tink-go/v2/aead"
	"github.com/tink-crypto/tink-go/v2/insecurecleartextkeyset"
	"github.com/tink-crypto/tink-go/v2/keyset"
	"github.com/tink-crypto/tink-go/v2/tink"

	"verif/hx"
	"verif/model"
	"verif/report"
	"verif/shim/vos"
)

type failure struct {
	kind string
	msg  string
	hist []Op
}

type failSet struct {
	mu sync.Mutex
	fs []failure
}

func (f *failSet) add(kind, msg string, hist []Op) {
	f.mu.Lock()
	f.fs = append(f.fs, failure{kind, msg, hist})
	f.mu.Unlock()
}

func histString(h []Op) string {
	var s []string
	for _, o := range h {
		s = append(s, o.String())
	}
	return strings.Join(s, " ")
}

// flush reports, per failure kind, the shortest (then lexicographically first) histories.
func (f *failSet) flush(rep *report.Report, section string, perKind int) {
	sort.Slice(f.fs, func(i, j int) bool {
		a, b := f.fs[i], f.fs[j]
		if a.kind != b.kind {
			return a.kind < b.kind
		}
		if len(a.hist) != len(b.hist) {
			return len(a.hist) < len(b.hist)
		}
		return histString(a.hist) < histString(b.hist)
	})
	n := map[string]int{}
	for _, x := range f.fs {
		if n[x.kind] >= perKind {
			continue
		}
		n[x.kind]++
		rep.Violate(section, section+"/"+x.kind+": "+histString(x.hist), x.msg, map[string]any{"history": x.hist, "kind": x.kind})
	}
}

func TestCheck(t *testing.T) {
	env := report.FromEnv()
	prop := os.Getenv("VERIF_PROPERTY")
	if prop == "" {
		prop = "C02"
	}
	rep := env.New(prop)
	defer rep.Guard(env)
	switch prop {
	case "C02":
		checkC02(t, env, rep)
	case "C03":
		checkC03(t, env, rep)
	case "C09":
		checkC09(t, env, rep)
	case "C01":
		checkC01(t, env, rep)
		c01Grants(t, env, rep)
	default:
		t.Fatalf("unknown property %s", prop)
	}
	if err := rep.Write(env); err != nil {
		t.Fatal(err)
	}
}

func maxVer(s *State) uint32 {
	var m uint32
	for _, sec := range s.Model.S {
		if sec.Latest > m {
			m = sec.Latest
		}
	}
	return m + 1
}

// ---------------------------------------------------------------- C02

func checkC02(t *testing.T, env *report.Env, rep *report.Report) {
	type cfg struct {
		name  string
		alpha []Op
		depth int
	}
	var cfgs []cfg
	if env.Thorough() {
		cfgs = []cfg{
			{"two-names-depth7", Alphabet([]string{"a", "b"}, []string{"", "x", "y"}, []uint32{0, 1, 2, 3}, true), 7},
			{"one-name-depth10", Alphabet([]string{"a"}, []string{"", "x", "y"}, []uint32{0, 1, 2, 3, 4}, false), 10},
		}
	} else {
		cfgs = []cfg{
			{"two-names-depth5", Alphabet([]string{"a", "b"}, []string{"", "x", "y"}, []uint32{0, 1, 2, 3}, true), 5},
			{"one-name-depth6", Alphabet([]string{"a"}, []string{"", "x", "y"}, []uint32{0, 1, 2, 3}, false), 6},
		}
	}
	if env.Replay != "" {
		replayHistory(t, env, rep)
		return
	}
	for _, c := range cfgs {
		fs := &failSet{}
		sec := rep.Add(&report.Section{Name: c.name, Engine: "seqx", Exhaustive: true, Extra: map[string]int64{},
			Rule:  "BFS over operation histories; the database file is reopened before every operation; state = canonical dump incl. next-version counter; a transition is non-trivial when it reaches a not-yet-seen state",
			Bound: fmt.Sprintf("depth %d, %d operations in the alphabet", c.depth, len(c.alpha))})
		var obsMu sync.Mutex
		var observed int64
		states, trans := BFS(c.alpha, c.depth, 16, func(tr *Trans) error {
			// full observable state after every step, through the public API
			got := hx.Observe(tr.After, ObsNames, maxVer(tr.To))
			want := hx.ObserveModel(tr.To.Model, ObsNames, maxVer(tr.To))
			obsMu.Lock()
			observed++
			obsMu.Unlock()
			if got != want {
				return fmt.Errorf("observable-state differs: got %s want %s", got, want)
			}
			// invariants stated in the property
			for n, s := range tr.To.Model.S {
				if _, ok := s.Versions[s.Active]; !ok {
					return fmt.Errorf("active-missing: %s", n)
				}
			}
			return nil
		}, fs.add)
		sec.States = int64(len(states))
		sec.Transitions = trans
		sec.Evaluations = trans
		sec.Nontrivial = int64(len(states)) - 1
		sec.Extra["full_state_observations"] = observed
		for i, s := range states {
			if i%(len(states)/3+1) == 1 {
				sec.Samples = append(sec.Samples, map[string]any{"history": histString(s.Hist), "state": s.Key})
			}
		}
		// differential pass: the same histories live (never reopened) must reach the same state
		dir := hx.Scratch("c02-live-")
		live := 0
		for _, s := range states {
			d, _, err := OpenFile(dir, nil)
			if err != nil {
				t.Fatal(err)
			}
			for _, o := range s.Hist {
				Apply(d, hx.Super(), o)
			}
			live++
			if k := hx.DumpKey(d); k != s.Key {
				fs.add("live-vs-restart", fmt.Sprintf("history %v: live state %s, state reached through restarts %s", s.Hist, k, s.Key), s.Hist)
			}
		}
		os.RemoveAll(dir)
		sec.Extra["live_replays"] = int64(live)
		fs.flush(rep, c.name, 3)
	}
	liveAlpha := Alphabet([]string{"a"}, []string{"", "x", "y"}, []uint32{1, 2, 3}, false)
	liveAlpha = append(liveAlpha, Op{Kind: "put", Name: "b", Value: "x"}, Op{Kind: "delete", Name: "b"})
	longHistory(rep)
	// the same with a read-everything step in the alphabet, so that reads happen between writes and not only
	// at the end of a history (state that reads leave in memory meets later writes)
	obsAlpha := []Op{{Kind: "put", Name: "a", Value: "x"}, {Kind: "put", Name: "a", Value: "y"}, {Kind: "activate", Name: "a", Ver: 2}, {Kind: "delver", Name: "a", Ver: 1}, {Kind: "delver", Name: "a", Ver: 2}, {Kind: "delete", Name: "a"}, {Kind: "observe"}}
	if env.Thorough() {
		liveTree(rep, env, "live-tree-no-restart-depth5", liveAlpha, 5)
		liveTree(rep, env, "live-tree-reads-between-writes-depth7", obsAlpha, 7)
	} else {
		liveTree(rep, env, "live-tree-no-restart-depth4", liveAlpha, 4)
		liveTree(rep, env, "live-tree-reads-between-writes-depth5", obsAlpha, 5)
	}
}

// liveTree executes every history over alpha up to depth on a database that is never reopened, without
// merging histories: state that only exists in memory (and that the restart-before-every-operation search
// therefore cannot see) is exercised here.  Only the last step of each history needs judging (its prefixes
// are histories of their own).
func liveTree(rep *report.Report, env *report.Env, name string, alpha []Op, depth int) {
	sec := rep.Add(&report.Section{Name: name, Engine: "seqx", Exhaustive: true, Extra: map[string]int64{},
		Rule:  "full tree of operation histories (never merged) on one live database instance per history, no restarts; the last step's result class, returned version, canonical state and full observable state are compared with the model, and the file the instance wrote is opened afresh and compared too; non-trivial = histories whose last operation changes the state",
		Bound: fmt.Sprintf("depth %d, %d operations", depth, len(alpha))})
	fs := &failSet{}
	var mu sync.Mutex
	var wg sync.WaitGroup
	type job struct{ first []Op }
	ch := make(chan job)
	for w := 0; w < 16; w++ {
		wg.Add(1)
		go func() {
			defer wg.Done()
			dir := hx.Scratch("live-")
			defer os.RemoveAll(dir)
			var evals, nontriv int64
			var rec func(hist []Op)
			rec = func(hist []Op) {
				if env.Expired() {
					mu.Lock()
					sec.Exhaustive = false
					mu.Unlock()
					return
				}
				d, _, err := OpenFile(dir, nil)
				if err != nil {
					panic(err)
				}
				m := model.NewKV()
				for i, o := range hist {
					if o.Kind == "observe" {
						// a read-only step in the middle of a history: get, get-version, info and list of
						// everything, through the public API; whatever these calls leave behind in memory
						// is there when the later steps run
						got := hx.Observe(d, ObsNames, 5)
						if i == len(hist)-1 {
							evals++
							if want := hx.ObserveModel(m, ObsNames, 5); got != want {
								fs.add("live-observable-state", fmt.Sprintf("live history %v: observable state %s, model %s", hist, got, want), hist)
							}
						}
						continue
					}
					res := Apply(d, hx.Super(), o)
					before := m.Clone()
					wantV, acc := ApplyModel(m, o)
					if res.Class != model.OK {
						m = before
					}
					if i == len(hist)-1 {
						evals++
						if m.Key() != before.Key() {
							nontriv++
						}
						switch {
						case !model.In(res.Class, acc):
							fs.add("live-result-class:"+o.String(), fmt.Sprintf("live history %v: last step returned %v (%s), model accepts %v", hist, res.Class, res.Err, acc), hist)
						case res.Class == model.OK && o.Kind == "put" && res.Ver != wantV:
							fs.add("live-put-version", fmt.Sprintf("live history %v: put returned version %d, model says %d", hist, res.Ver, wantV), hist)
						case hx.DumpKey(d) != m.Key():
							fs.add("live-state-differs", fmt.Sprintf("live history %v: database state %s, model %s", hist, hx.DumpKey(d), m.Key()), hist)
						default:
							if got, want := hx.Observe(d, ObsNames, 5), hx.ObserveModel(m, ObsNames, 5); got != want {
								fs.add("live-observable-state", fmt.Sprintf("live history %v: observable state %s, model %s", hist, got, want), hist)
							}
						}
						// what the live instance wrote: the file, opened afresh, holds the same state
						if d2, err := db.Open(filepath.Join(dir, "db"), KEK, hx.Discard()); err != nil {
							fs.add("live-file-does-not-open", fmt.Sprintf("live history %v: the file it wrote does not open: %v", hist, err), hist)
						} else if k := hx.DumpKey(d2); k != m.Key() {
							fs.add("live-file-differs", fmt.Sprintf("live history %v: the file it wrote opens as %s, the acknowledged operations imply %s", hist, k, m.Key()), hist)
						}
					}
				}
				if len(hist) == depth {
					return
				}
				for _, o := range alpha {
					rec(append(append([]Op{}, hist...), o))
				}
			}
			for j := range ch {
				rec(j.first)
			}
			mu.Lock()
			sec.Evaluations += evals
			sec.Nontrivial += nontriv
			mu.Unlock()
		}()
	}
	for _, a := range alpha {
		for _, b := range alpha {
			ch <- job{[]Op{a, b}}
		}
	}
	close(ch)
	wg.Wait()
	// depth-1 histories
	sec.States, sec.Transitions = sec.Evaluations, sec.Evaluations
	sec.Samples = append(sec.Samples, "put(a,x) put(a,y) delver(a,2) put(a,y)  (all on one live instance)")
	fs.flush(rep, name, 3)
}

// replayHistory re-executes a recorded history live and with restarts, against the model.
func replayHistory(t *testing.T, env *report.Env, rep *report.Report) {
	b, err := os.ReadFile(env.Replay)
	if err != nil {
		t.Fatal(err)
	}
	var f struct {
		Key    string `json:"key"`
		Replay struct {
			History []Op `json:"history"`
		} `json:"replay"`
	}
	if err := json.Unmarshal(b, &f); err != nil {
		t.Fatal(err)
	}
	dir := hx.Scratch("replay-")
	defer os.RemoveAll(dir)
	d, path, _ := OpenFile(dir, nil)
	m := model.NewKV()
	sec := rep.Add(&report.Section{Name: "replay", Engine: "seqx"})
	live := strings.HasPrefix(f.Key, "live-") // found on an instance that is never reopened
	for i, o := range f.Replay.History {
		if !live {
			file, _ := os.ReadFile(path)
			d, _, err = OpenFile(dir, file)
			if err != nil {
				rep.Violate("replay", f.Key, fmt.Sprintf("reopen failed at step %d: %v", i, err), f.Replay)
				return
			}
		}
		if o.Kind == "observe" {
			sec.Evaluations++
			if got, want := hx.Observe(d, ObsNames, 5), hx.ObserveModel(m, ObsNames, 5); got != want {
				rep.Violate("replay", f.Key, fmt.Sprintf("step %d %v: observable state %s; model %s", i, o, got, want), f.Replay)
				return
			}
			continue
		}
		res := Apply(d, hx.Super(), o)
		before := m.Clone()
		wantV, acc := ApplyModel(m, o)
		sec.Evaluations++
		sec.Samples = append(sec.Samples, fmt.Sprintf("%v -> %v v%d", o, res.Class, res.Ver))
		if res.Class != model.OK {
			m = before
		}
		if !model.In(res.Class, acc) || (res.Class == model.OK && o.Kind == "put" && res.Ver != wantV) || hx.DumpKey(d) != m.Key() ||
			hx.Observe(d, ObsNames, 5) != hx.ObserveModel(m, ObsNames, 5) {
			rep.Violate("replay", f.Key, fmt.Sprintf("step %d %v: got %v v%d state %s; model accepts %v v%d state %s", i, o, res.Class, res.Ver, hx.DumpKey(d), acc, wantV, m.Key()), f.Replay)
			return
		}
	}
}

// ---------------------------------------------------------------- C03

// brokenSink is an audit log that cannot be written.
type brokenSink struct{}

func (brokenSink) Write(p []byte) (int, error) {
	return 0, errors.New("audit log: no space left on device (scripted)")
}

// writeV1 serialises a model state in the documented schema-version-1 layout,
// independently of setec's code: JSON wrapper {Version, DEK, DB}; DEK = tink
// binary keyset encrypted with the KEK and associated data "setec DEK v1"; DB =
// XChaCha20-Poly1305 (from the DEK) over the JSON persist object with
// associated data "setec database v1".
func writeV1(path string, kek tink.AEAD, k *model.KV) error {
	dek, err := keyset.NewHandle(aead.XChaCha20Poly1305KeyTemplate())
	if err != nil {
		return err
	}
	var buf bytes.Buffer
	if err := dek.WriteWithAssociatedData(keyset.NewBinaryWriter(&buf), kek, []byte("setec DEK v1")); err != nil {
		return err
	}
	c, err := aead.New(dek)
	if err != nil {
		return err
	}
	type sec struct {
		Versions      map[string]string
		ActiveVersion uint32
		LatestVersion uint32
	}
	secrets := map[string]sec{}
	for n, s := range k.S {
		vs := map[string]string{}
		for v, b := range s.Versions {
			vs[strconv.FormatUint(uint64(v), 10)] = base64.StdEncoding.EncodeToString([]byte(b))
		}
		secrets[n] = sec{Versions: vs, ActiveVersion: s.Active, LatestVersion: s.Latest}
	}
	clear, _ := json.Marshal(map[string]any{"Secrets": secrets})
	enc, err := c.Encrypt(clear, []byte("setec database v1"))
	if err != nil {
		return err
	}
	out, _ := json.Marshal(map[string]any{"Version": 1, "DEK": buf.Bytes(), "DB": enc})
	return os.WriteFile(path, out, 0o600)
}

// mutLog counts mutating file-system calls.
type mutLog struct {
	mu    sync.Mutex
	calls []string
}

func (m *mutLog) Before(c *vos.Call) {
	if c.Mutating {
		m.mu.Lock()
		m.calls = append(m.calls, c.Op+" "+filepath.Base(c.Path))
		m.mu.Unlock()
	}
}
func (m *mutLog) After(c *vos.Call, err error) {}

func checkC03(t *testing.T, env *report.Env, rep *report.Report) {
	if env.Replay != "" {
		replayHistory(t, env, rep)
		return
	}
	depth := 5
	alpha := Alphabet([]string{"a", "b"}, []string{"", "x", "y"}, []uint32{1, 2, 3}, false)
	if env.Thorough() {
		depth = 7
	}
	fs := &failSet{}
	sec := rep.Add(&report.Section{Name: fmt.Sprintf("restart-after-every-op-depth%d", depth), Engine: "seqx", Exhaustive: true, Extra: map[string]int64{},
		Rule:  "BFS over operation histories with the database file closed and reopened (same key) before every single operation; the state reached through restarts is compared with the model and with the same history run live; in every state each operation is also tried with an audit log that cannot be written and the file reopened; non-trivial = transition into a new state",
		Bound: fmt.Sprintf("depth %d, %d operations", depth, len(alpha))})
	states, trans := BFS(alpha, depth, 16, nil, fs.add)
	sec.States, sec.Transitions, sec.Evaluations, sec.Nontrivial = int64(len(states)), trans, trans, int64(len(states))-1
	// every state: (a) Open is read-only, (b) next-version counter survives (probed by a Put), (c) independent v1 writer, (d) live replay
	dir := hx.Scratch("c03-")
	defer os.RemoveAll(dir)
	ml := &mutLog{}
	var roChecks, v1Checks, ctrChecks, failedOps int64
	for i, s := range states {
		path := filepath.Join(dir, "db")
		os.Remove(path)
		os.WriteFile(path, s.File, 0o600)
		ml.calls = nil
		vos.SetHook(ml)
		d, err := db.Open(path, KEK, hx.Discard())
		vos.SetHook(nil)
		roChecks++
		if err != nil {
			fs.add("reopen-failed", fmt.Sprintf("history %v: %v", s.Hist, err), s.Hist)
			continue
		}
		after, _ := os.ReadFile(path)
		if len(ml.calls) != 0 || !bytes.Equal(after, s.File) {
			fs.add("open-modifies-file", fmt.Sprintf("history %v: opening issued %v; bytes equal=%v", s.Hist, ml.calls, bytes.Equal(after, s.File)), s.Hist)
		}
		// the same file as it arrives from a backup or a copy (wider mode bits): opening is still read-only
		for _, mode := range []os.FileMode{0o644, 0o640, 0o666} {
			p3 := filepath.Join(dir, "restored")
			os.Remove(p3)
			os.WriteFile(p3, s.File, 0o600)
			os.Chmod(p3, mode)
			ml.calls = nil
			vos.SetHook(ml)
			_, err := db.Open(p3, KEK, hx.Discard())
			vos.SetHook(nil)
			roChecks++
			after, _ := os.ReadFile(p3)
			if err != nil || len(ml.calls) != 0 || !bytes.Equal(after, s.File) {
				fs.add("open-modifies-file", fmt.Sprintf("history %v, file mode %o: opening issued %v; bytes equal=%v err=%v", s.Hist, mode, ml.calls, bytes.Equal(after, s.File), err), s.Hist)
			}
		}
		// next-version counter: a put of a fresh value must get exactly the model's next number
		for _, n := range []string{"a", "b"} {
			m := s.Model.Clone()
			want, _ := m.Put(n, "fresh-value")
			got, err := d.Put(hx.Super(), n, []byte("fresh-value"))
			ctrChecks++
			if err != nil || uint32(got) != want {
				fs.add("next-version-after-restart", fmt.Sprintf("history %v, restart, put(%s): got v%d err=%v, want v%d", s.Hist, n, got, err, want), s.Hist)
			}
		}
		// operations that fail for a reason outside the database file (the audit log cannot be written):
		// whatever each call reports, the file reopened afterwards holds exactly what the calls that
		// reported success imply
		for _, o := range alpha {
			p4 := filepath.Join(dir, "refused")
			os.Remove(p4)
			os.WriteFile(p4, s.File, 0o600)
			d4, err := db.Open(p4, KEK, audit.New(brokenSink{}))
			if err != nil {
				continue
			}
			res := Apply(d4, hx.Super(), o)
			m := s.Model.Clone()
			if res.Class == model.OK {
				ApplyModel(m, o)
			}
			d5, err := db.Open(p4, KEK, hx.Discard())
			failedOps++
			if err != nil {
				fs.add("reopen-after-refused-op", fmt.Sprintf("history %v, then %v with an audit log that cannot be written (reported %v): the file does not reopen: %v", s.Hist, o, res.Class, err), s.Hist)
			} else if k := hx.DumpKey(d5); k != m.Key() {
				fs.add("refused-op-persisted", fmt.Sprintf("history %v, then %v with an audit log that cannot be written: the call reported %v (%s), yet the reopened file holds %s; the calls that reported success imply %s", s.Hist, o, res.Class, res.Err, k, m.Key()), s.Hist)
			}
		}
		// independent writer of the documented layout
		p2 := filepath.Join(dir, "v1")
		if err := writeV1(p2, KEK, s.Model); err != nil {
			t.Fatal(err)
		}
		d2, err := db.Open(p2, KEK, hx.Discard())
		v1Checks++
		if err != nil {
			fs.add("v1-layout-rejected", fmt.Sprintf("state %s written in the documented v1 layout does not open: %v", s.Key, err), s.Hist)
		} else if k := hx.DumpKey(d2); k != s.Model.Key() {
			fs.add("v1-layout-differs", fmt.Sprintf("state %s written in the documented v1 layout opens as %s", s.Model.Key(), k), s.Hist)
		} else if hx.Observe(d2, ObsNames, maxVer(s)) != hx.ObserveModel(s.Model, ObsNames, maxVer(s)) {
			fs.add("v1-layout-observe", fmt.Sprintf("state %s written in the documented v1 layout is observed differently", s.Model.Key()), s.Hist)
		}
		os.Remove(p2)
		if i%(len(states)/3+1) == 1 {
			sec.Samples = append(sec.Samples, map[string]any{"history": histString(s.Hist), "state": s.Key})
		}
	}
	sec.Extra["open_readonly_checks"] = roChecks
	sec.Extra["v1_independent_writer_opens"] = v1Checks
	sec.Extra["next_version_probes"] = ctrChecks
	sec.Extra["ops_with_unwritable_audit_log_then_reopen"] = failedOps
	fs.flush(rep, sec.Name, 3)

	// histories on one live instance (state kept in memory between saves), the file reopened at the end
	c03Alpha := []Op{{Kind: "put", Name: "a", Value: "x"}, {Kind: "put", Name: "a", Value: "y"}, {Kind: "delete", Name: "a"}, {Kind: "delver", Name: "a", Ver: 2}, {Kind: "activate", Name: "a", Ver: 2}, {Kind: "put", Name: "b", Value: "x"}, {Kind: "delete", Name: "b"}}
	if env.Thorough() {
		liveTree(rep, env, "live-histories-then-reopen-depth6", c03Alpha, 6)
	} else {
		liveTree(rep, env, "live-histories-then-reopen-depth5", c03Alpha, 5)
	}
	// golden files written by the pinned commit
	g := rep.Add(&report.Section{Name: "golden-files", Engine: "enum", Exhaustive: true, Rule: "database files written once by the pinned commit (golden/), each opened with its key and compared with the recorded dump"})
	root := os.Getenv("VERIF_ROOT")
	if root == "" {
		root = "/verif"
	}
	files, _ := filepath.Glob(filepath.Join(root, "golden", "*.db"))
	for _, f := range files {
		base := strings.TrimSuffix(f, ".db")
		ks, err := os.ReadFile(base + ".keyset.json")
		if err != nil {
			t.Fatal(err)
		}
		h, err := insecurecleartextkeyset.Read(keyset.NewJSONReader(bytes.NewReader(ks)))
		if err != nil {
			t.Fatal(err)
		}
		k, _ := aead.New(h)
		want, _ := os.ReadFile(base + ".dump.json")
		tmp := filepath.Join(dir, "golden.db")
		orig, _ := os.ReadFile(f)
		os.WriteFile(tmp, orig, 0o600)
		d, err := db.Open(tmp, k, hx.Discard())
		g.Evaluations++
		g.Nontrivial++
		g.States++
		g.Transitions++
		key := "golden/" + filepath.Base(f)
		if err != nil {
			rep.Violate(g.Name, key+": open failed", fmt.Sprintf("%s: %v", f, err), map[string]any{"file": f})
			continue
		}
		if got := hx.DumpKey(d); got != strings.TrimSpace(string(want)) {
			rep.Violate(g.Name, key+": contents differ", fmt.Sprintf("%s opens as %s, recorded %s", f, got, want), map[string]any{"file": f})
		}
		now, _ := os.ReadFile(tmp)
		if !bytes.Equal(now, orig) {
			rep.Violate(g.Name, key+": modified by open", f, map[string]any{"file": f})
		}
		g.Samples = append(g.Samples, filepath.Base(f)+" -> "+report.Clip(string(want), 200))
	}
	if len(files) == 0 {
		g.Exhaustive = false
		rep.EngineErrors = append(rep.EngineErrors, "no golden files found")
	}
}

// TestMakeGolden writes the golden files (run once, at the pinned commit).
func TestMakeGolden(t *testing.T) {
	if os.Getenv("VERIF_MAKE_GOLDEN") == "" {
		t.Skip()
	}
	out := os.Getenv("VERIF_MAKE_GOLDEN")
	hists := map[string][]Op{
		"g0-empty":    nil,
		"g1-simple":   {{Kind: "put", Name: "a", Value: "x"}},
		"g2-versions": {{Kind: "put", Name: "a", Value: "x"}, {Kind: "put", Name: "a", Value: "y"}, {Kind: "put", Name: "a", Value: ""}, {Kind: "activate", Name: "a", Ver: 2}, {Kind: "delver", Name: "a", Ver: 3}, {Kind: "put", Name: "b/c", Value: "\x00\xff\n\"bin"}},
		"g3-recreate": {{Kind: "put", Name: "a", Value: "x"}, {Kind: "put", Name: "a", Value: "y"}, {Kind: "delete", Name: "a"}, {Kind: "put", Name: "a", Value: "z"}, {Kind: "put", Name: "dev/k", Value: strings.Repeat("K", 5000)}},
	}
	for name, h := range hists {
		kh, _ := keyset.NewHandle(aead.AES256GCMKeyTemplate())
		k, _ := aead.New(kh)
		path := filepath.Join(out, name+".db")
		os.Remove(path)
		d, err := db.Open(path, k, hx.Discard())
		if err != nil {
			t.Fatal(err)
		}
		for _, o := range h {
			if r := Apply(d, hx.Super(), o); r.Class != model.OK {
				t.Fatalf("%v: %v", o, r)
			}
		}
		var buf bytes.Buffer
		insecurecleartextkeyset.Write(kh, keyset.NewJSONWriter(&buf))
		os.WriteFile(filepath.Join(out, name+".keyset.json"), buf.Bytes(), 0o644)
		os.WriteFile(filepath.Join(out, name+".dump.json"), []byte(hx.DumpKey(d)+"\n"), 0o644)
	}
}

// longHistory: one name through a long life - 130 puts of fresh values with an activation every tenth
// step and a bystander name - compared with the model after every step (a history much longer than the
// trees reach; one history, not a search).
func longHistory(rep *report.Report) {
	sec := rep.Add(&report.Section{Name: "one-long-history", Engine: "seqx", Exhaustive: true, Extra: map[string]int64{},
		Rule: "a single history of 130 puts of fresh values on one name (every tenth step activates the newest version, every 25th deletes the oldest inactive one) next to a bystander name, on one live instance: result, returned version and full observable state (all versions ever assigned) against the model after every step; non-trivial = all"})
	dir := hx.Scratch("long-")
	defer os.RemoveAll(dir)
	d, _, err := OpenFile(dir, nil)
	if err != nil {
		panic(err)
	}
	m := model.NewKV()
	var hist []Op
	step := func(o Op) bool {
		hist = append(hist, o)
		res := Apply(d, hx.Super(), o)
		before := m.Clone()
		wantV, acc := ApplyModel(m, o)
		if res.Class != model.OK {
			m = before
		}
		sec.Evaluations++
		sec.Nontrivial++
		maxV := uint32(len(hist) + 2)
		switch {
		case !model.In(res.Class, acc):
			rep.Violate(sec.Name, "long-history/result", fmt.Sprintf("step %d %v of the long history returned %v (%s), model accepts %v", len(hist), o, res.Class, res.Err, acc), nil)
		case res.Class == model.OK && o.Kind == "put" && res.Ver != wantV:
			rep.Violate(sec.Name, "long-history/version", fmt.Sprintf("step %d %v returned version %d, model says %d", len(hist), o, res.Ver, wantV), nil)
		case hx.Observe(d, []string{"a", "b"}, maxV) != hx.ObserveModel(m, []string{"a", "b"}, maxV):
			rep.Violate(sec.Name, "long-history/state", fmt.Sprintf("after step %d %v of the long history the observable state differs from the model: got %s want %s", len(hist), o, report.Clip(hx.Observe(d, []string{"a", "b"}, maxV), 400), report.Clip(hx.ObserveModel(m, []string{"a", "b"}, maxV), 400)), nil)
		default:
			return true
		}
		return false
	}
	step(Op{Kind: "put", Name: "b", Value: "bystander"})
	for i := 1; i <= 130; i++ {
		if !step(Op{Kind: "put", Name: "a", Value: fmt.Sprintf("value-%d", i)}) {
			break
		}
		if i%10 == 0 && !step(Op{Kind: "activate", Name: "a", Ver: uint32(i)}) {
			break
		}
		if i%25 == 0 && !step(Op{Kind: "delver", Name: "a", Ver: uint32(i/25 + 1)}) {
			break
		}
	}
	sec.States, sec.Transitions = sec.Evaluations, sec.Evaluations
}
