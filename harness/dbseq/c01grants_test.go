package dbseq

import (
	"context"
	"fmt"
	"net/http"
	"os"
	"path/filepath"
	"strings"
	"testing"

	"github.com/tailscale/setec/db"
	"github.com/tailscale/setec/server"
	"tailscale.com/client/tailscale/apitype"
	"tailscale.com/tailcfg"

	"verif/hx"
	"verif/model"
	"verif/report"
)

// c01Grants: the caller's rule set as the server derives it from the capability values of the
// WhoIs answer. Every ordered pair (and some triples) of grant values of differing shapes -
// differing numbers of actions and patterns, members left out - must be evaluated as exactly the
// union of the grants, each read on its own.
func c01Grants(t *testing.T, env *report.Env, rep *report.Report) {
	sec := rep.Add(&report.Section{Name: "http-grant-value-shapes", Engine: "enum", Exhaustive: true, Extra: map[string]int64{},
		Rule: "every ordered pair of capability grant values with actions {[get,info], [put], [delete,activate,put], [], member absent} × patterns {[a], [*], [ab,a], [zz,ab,a*], member absent}, plus triples thereof in the thorough tier × 17 operation instances × 6 targets through the HTTP handlers: 403 iff the union of the grants, each parsed on its own, does not allow the call; non-trivial = calls the reference allows"})
	type grant struct {
		raw string
		ref model.Rule
	}
	acts := []struct {
		json string
		list []string
	}{{`"action":["get","info"]`, []string{"get", "info"}}, {`"action":["put"]`, []string{"put"}}, {`"action":["delete","activate","put"]`, []string{"delete", "activate", "put"}}, {`"action":[]`, nil}, {``, nil}}
	pats := []struct {
		json string
		list []string
	}{{`"secret":["a"]`, []string{"a"}}, {`"secret":["*"]`, []string{"*"}}, {`"secret":["ab","a"]`, []string{"ab", "a"}}, {`"secret":["zz","ab","a*"]`, []string{"zz", "ab", "a*"}}, {``, nil}}
	var grants []grant
	for _, a := range acts {
		for _, p := range pats {
			var m []string
			if a.json != "" {
				m = append(m, a.json)
			}
			if p.json != "" {
				m = append(m, p.json)
			}
			grants = append(grants, grant{"{" + strings.Join(m, ",") + "}", model.Rule{Actions: a.list, Patterns: p.list}})
		}
	}
	var combos [][]grant
	for _, g1 := range grants {
		for _, g2 := range grants {
			combos = append(combos, []grant{g1, g2})
		}
	}
	if env.Thorough() {
		for _, g1 := range grants {
			for _, g2 := range grants {
				for _, g3 := range grants[:10] {
					combos = append(combos, []grant{g1, g2, g3})
				}
			}
		}
	}
	dir := hx.Scratch("c01g-")
	defer os.RemoveAll(dir)
	// the database: a with two versions, ab with one
	mk := func() *db.DB {
		os.RemoveAll(filepath.Join(dir, "db"))
		d, err := db.Open(filepath.Join(dir, "db"), KEK, hx.Discard())
		if err != nil {
			t.Fatal(err)
		}
		su := hx.Super()
		d.Put(su, "a", []byte("s1"))
		d.Put(su, "a", []byte("s2"))
		d.Put(su, "ab", []byte("s1"))
		return d
	}
	d := mk()
	pristine := hx.DumpKey(d)
	for ci, combo := range combos {
		if !env.Mine(int64(ci)) {
			continue
		}
		var raw []tailcfg.RawMessage
		var ref []model.Rule
		var desc []string
		for _, g := range combo {
			raw = append(raw, tailcfg.RawMessage(g.raw))
			ref = append(ref, g.ref)
			desc = append(desc, g.raw)
		}
		mux := http.NewServeMux()
		if _, err := server.New(context.Background(), server.Config{DB: d, Mux: mux, WhoIs: func(context.Context, string) (*apitype.WhoIsResponse, error) {
			return &apitype.WhoIsResponse{Node: &tailcfg.Node{Name: "n.example.ts.net"}, UserProfile: &tailcfg.UserProfile{ID: 1, LoginName: "u@example.com"}, CapMap: tailcfg.PeerCapMap{server.ACLCap: raw}}, nil
		}}); err != nil {
			t.Fatal(err)
		}
		sec.States++
		for _, c := range c01Calls {
			for _, name := range c01Targets {
				if c.Kind == "list" {
					continue
				}
				sec.Evaluations++
				allowed := model.Allow(ref, c.action(), name)
				code, body := httpCall(mux, c, name)
				what := fmt.Sprintf("grants %s: %v on %q", strings.Join(desc, " + "), c, name)
				switch {
				case !allowed && code != 403 && !(c.Ver == 0 && (c.Kind == "activate" || c.Kind == "delver") && code >= 400):
					rep.Violate(sec.Name, fmt.Sprintf("grants-fail-open:%s", c.Kind), fmt.Sprintf("%s: no grant allows it, but the HTTP status is %d (%s)", what, code, report.Clip(body, 80)), map[string]any{"grants": desc, "call": c.String(), "name": name})
				case allowed && code == 403:
					rep.Violate(sec.Name, fmt.Sprintf("grants-fail-closed:%s", c.Kind), fmt.Sprintf("%s: a grant allows it, but the HTTP status is 403", what), map[string]any{"grants": desc, "call": c.String(), "name": name})
				}
				if allowed {
					sec.Nontrivial++
				}
				if hx.DumpKey(d) != pristine {
					if !allowed {
						rep.Violate(sec.Name, fmt.Sprintf("grants-denied-but-changed:%s", c.Kind), what+": refused call changed the database", map[string]any{"grants": desc, "call": c.String(), "name": name})
					}
					d = mk()
					mux = http.NewServeMux()
					server.New(context.Background(), server.Config{DB: d, Mux: mux, WhoIs: func(context.Context, string) (*apitype.WhoIsResponse, error) {
						return &apitype.WhoIsResponse{Node: &tailcfg.Node{Name: "n.example.ts.net"}, UserProfile: &tailcfg.UserProfile{ID: 1, LoginName: "u@example.com"}, CapMap: tailcfg.PeerCapMap{server.ACLCap: raw}}, nil
					}})
				}
			}
		}
	}
	sec.Transitions = sec.Evaluations
	sec.Samples = append(sec.Samples, fmt.Sprintf("%d grant values, %d combinations", len(grants), len(combos)))
}
