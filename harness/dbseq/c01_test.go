package dbseq

import (
	"bytes"
	"encoding/json"
	"fmt"
	"net/http"
	"net/http/httptest"
	"os"
	"sort"
	"strings"
	"sync"
	"testing"

	"github.com/tailscale/setec/acl"
	"github.com/tailscale/setec/db"
	"github.com/tailscale/setec/types/api"

	"verif/hx"
	"verif/model"
	"verif/report"
)

// call is one API operation instance.
type call struct {
	Kind string // list info get getver getcond put putsame activate delver delete
	Ver  uint32
	Val  string // put: the value (default: a marker no state holds)
}

func (c call) action() string {
	switch c.Kind {
	case "list", "info":
		return "info"
	case "get", "getver", "getcond":
		return "get"
	case "put", "putsame":
		return "put"
	case "activate":
		return "activate"
	}
	return "delete"
}

func (c call) mutating() bool {
	switch c.Kind {
	case "put", "putsame", "activate", "delver", "delete":
		return true
	}
	return false
}

func (c call) String() string {
	if c.Val != "" {
		return fmt.Sprintf("%s/%d(the stored value)", c.Kind, c.Ver)
	}
	return fmt.Sprintf("%s/%d", c.Kind, c.Ver)
}

func (c call) value() []byte {
	if c.Val != "" {
		return []byte(c.Val)
	}
	return []byte(marker)
}

type outcome struct {
	Class model.Class
	Text  string // value / metadata rendering
	Err   string
}

const marker = "MARKER-7f3a9c21-value"

// run performs c on name as caller.
func run(d *db.DB, caller db.Caller, c call, name string) outcome {
	mk := func(text string, err error) outcome {
		o := outcome{Class: hx.Classify(err), Text: text}
		if err != nil {
			o.Err, o.Text = err.Error(), ""
		}
		return o
	}
	switch c.Kind {
	case "list":
		ins, err := d.List(caller)
		var sb []string
		for _, in := range ins {
			sb = append(sb, fmt.Sprintf("%s%v@%d", in.Name, in.Versions, in.ActiveVersion))
		}
		return mk(strings.Join(sb, ";"), err)
	case "info":
		in, err := d.Info(caller, name)
		if err != nil {
			return mk("", err)
		}
		return mk(fmt.Sprintf("%s%v@%d", in.Name, in.Versions, in.ActiveVersion), nil)
	case "get":
		sv, err := d.Get(caller, name)
		if err != nil {
			return mk("", err)
		}
		return mk(fmt.Sprintf("%d:%q", sv.Version, sv.Value), nil)
	case "getver":
		sv, err := d.GetVersion(caller, name, api.SecretVersion(c.Ver))
		if err != nil {
			return mk("", err)
		}
		return mk(fmt.Sprintf("%d:%q", sv.Version, sv.Value), nil)
	case "getcond":
		sv, err := d.GetConditional(caller, name, api.SecretVersion(c.Ver))
		if err != nil {
			return mk("", err)
		}
		return mk(fmt.Sprintf("%d:%q", sv.Version, sv.Value), nil)
	case "put", "putsame":
		v, err := d.Put(caller, name, c.value())
		return mk(fmt.Sprint(v), err)
	case "activate":
		return mk("", d.Activate(caller, name, api.SecretVersion(c.Ver)))
	case "delver":
		return mk("", d.DeleteVersion(caller, name, api.SecretVersion(c.Ver)))
	case "delete":
		return mk("", d.Delete(caller, name))
	}
	panic("bad call")
}

func toRef(rs acl.Rules) []model.Rule {
	var out []model.Rule
	for _, r := range rs {
		var m model.Rule
		for _, a := range r.Action {
			m.Actions = append(m.Actions, string(a))
		}
		for _, s := range r.Secret {
			m.Patterns = append(m.Patterns, string(s))
		}
		out = append(out, m)
	}
	return out
}

func rulesString(rs acl.Rules) string {
	b, _ := json.Marshal(rs)
	return string(b)
}

func ruleUniverse(thorough bool) []acl.Rules {
	var actionSets [][]acl.Action
	for _, a := range hx.AllActions {
		actionSets = append(actionSets, []acl.Action{a})
	}
	actionSets = append(actionSets, []acl.Action{acl.ActionGet, acl.ActionInfo}, hx.AllActions)
	patSets := [][]acl.Secret{{"*"}, {"a"}, {"a*"}, {"ab"}, {"b", "a"}, {"a", "zz"}, {"a*a"}, {"_internal/*"}, {}}
	var rules []acl.Rule
	for _, as := range actionSets {
		for _, ps := range patSets {
			rules = append(rules, acl.Rule{Action: as, Secret: ps})
		}
	}
	sets := []acl.Rules{nil}
	for _, r := range rules {
		sets = append(sets, acl.Rules{r})
	}
	if thorough {
		for i := range rules {
			for j := i + 1; j < len(rules); j++ {
				sets = append(sets, acl.Rules{rules[i], rules[j]})
			}
		}
	} else {
		// pairs over single-action rules × {a, *}
		var small []acl.Rule
		for _, a := range hx.AllActions {
			for _, p := range []acl.Secret{"a", "*", "a*"} {
				small = append(small, acl.Rule{Action: []acl.Action{a}, Secret: []acl.Secret{p}})
			}
		}
		for i := range small {
			for j := i + 1; j < len(small); j++ {
				sets = append(sets, acl.Rules{small[i], small[j]})
			}
		}
	}
	return sets
}

var c01Calls = []call{
	{Kind: "list"}, {Kind: "info"}, {Kind: "get"},
	{Kind: "getver", Ver: 1}, {Kind: "getver", Ver: 2}, {Kind: "getver", Ver: 9},
	{Kind: "getcond", Ver: 1}, {Kind: "getcond", Ver: 2}, {Kind: "getcond", Ver: 9},
	{Kind: "put"}, {Kind: "putsame"},
	{Kind: "activate", Ver: 0}, {Kind: "activate", Ver: 1}, {Kind: "activate", Ver: 2},
	{Kind: "delver", Ver: 0}, {Kind: "delver", Ver: 1}, {Kind: "delver", Ver: 2},
	{Kind: "delete"},
}

// "ab/../a" and "a/" are other spellings of nothing: names are opaque strings, not paths
var c01Targets = []string{"a", "ab", "zz", "_internal/x", "_internal/a", " a", "ab/../a", "a/"}

func checkC01(t *testing.T, env *report.Env, rep *report.Report) {
	depth := 2
	if env.Thorough() {
		depth = 3
	}
	alpha := Alphabet([]string{"a", "ab"}, []string{"s1", "s2"}, []uint32{1, 2}, false)
	fs := &failSet{}
	sets := ruleUniverse(env.Thorough())
	sec := rep.Add(&report.Section{Name: fmt.Sprintf("acl-all-rule-sets-depth%d", depth), Engine: "seqx", Exhaustive: true, Extra: map[string]int64{},
		Rule:  "every database state of the BFS (names a, ab) × every rule set of the universe × 18 operation instances (incl. a put of the bytes the secret already holds) × targets {a, ab, zz, _internal/x, _internal/a, space-a, ab/../a, a/}; an allowed call changes only the name it was given and a name the database does not hold is not found however it is spelled, at the db.DB API and through the HTTP handlers; after each rule set with a multi-pattern or multi-action rule, list is asked again on the same live database by a caller whose different rule set prints the same; reference decision = independent glob/ACL evaluator; non-trivial = evaluations that the reference allows (the call must then behave exactly like the superuser's)",
		Bound: fmt.Sprintf("depth %d; %d rule sets", depth, len(sets))})
	states, trans := BFS(alpha, depth, 16, nil, fs.add)
	sec.States, sec.Transitions = int64(len(states)), trans
	sec.Extra["rule_sets"] = int64(len(sets))
	var mu sync.Mutex
	var wg sync.WaitGroup
	type job struct {
		s  *State
		rs acl.Rules
	}
	ch := make(chan job, 64)
	for w := 0; w < 16; w++ {
		wg.Add(1)
		go func() {
			defer wg.Done()
			dir := hx.Scratch("c01-")
			defer os.RemoveAll(dir)
			dirSu := hx.Scratch("c01su-")
			defer os.RemoveAll(dirSu)
			for j := range ch {
				s, rs := j.s, j.rs
				ref := toRef(rs)
				caller := db.Caller{Principal: hx.Super().Principal, Permissions: rs}
				d, _, err := OpenFile(dir, s.File)
				if err != nil {
					fs.add("reopen-failed", err.Error(), s.Hist)
					continue
				}
				mux := newMux(d, rs)
				var evals, nontriv int64
				denials := map[string]map[string]string{} // call -> target -> refusal text
				for _, c := range c01Calls {
					for _, name := range c01Targets {
						if c.Kind == "list" && name != "a" {
							continue
						}
						c := c
						if c.Kind == "putsame" {
							// a put of exactly the bytes the secret's newest version holds (a put that stores
							// nothing when it is allowed): it needs the same grant as any other put
							c.Kind = "put"
							ms := s.Model.S[name]
							if ms == nil || ms.Versions[ms.Latest] == "" {
								continue
							}
							c.Val = ms.Versions[ms.Latest]
						}
						evals++
						allowed := model.Allow(ref, c.action(), name)
						desc := fmt.Sprintf("state %s rules %s: %v on %q", s.Key, rulesString(rs), c, name)
						if c.Kind == "list" {
							got := run(d, caller, c, name)
							var want []string
							for _, in := range s.Model.List() {
								if model.Allow(ref, "info", in.Name) {
									want = append(want, fmt.Sprintf("%s%v@%d", in.Name, vers(in.Versions), in.Active))
								}
							}
							if len(want) > 0 {
								nontriv++
							}
							if got.Class != model.OK || got.Text != strings.Join(want, ";") {
								fs.add("list-filter", fmt.Sprintf("%s: got %v %q want %q", desc, got.Class, got.Text, strings.Join(want, ";")), s.Hist)
							}
							continue
						}
						before := hx.DumpKey(d)
						if !allowed {
							got := run(d, caller, c, name)
							okClass := got.Class == model.Denied
							if (c.Kind == "activate" || c.Kind == "delver") && c.Ver == 0 {
								okClass = okClass || got.Class == model.OtherErr // version 0 is not a well-formed request
							}
							if !okClass || got.Text != "" {
								fs.add("not-denied:"+c.Kind, fmt.Sprintf("%s: not allowed by any rule, but got %v %q (%s)", desc, got.Class, got.Text, got.Err), s.Hist)
							}
							if hx.DumpKey(d) != before {
								fs.add("denied-but-changed:"+c.Kind, fmt.Sprintf("%s: refused call changed the state to %s", desc, hx.DumpKey(d)), s.Hist)
							}
							if denials[c.String()] == nil {
								denials[c.String()] = map[string]string{}
							}
							denials[c.String()][name] = fmt.Sprintf("%v|%s", got.Class, got.Err)
							// HTTP: must be 403 with no secret material
							if code, body := httpCall(mux, c, name); code != 403 && !(c.Ver == 0 && (c.Kind == "activate" || c.Kind == "delver") && code >= 400) {
								fs.add("http-not-403:"+c.Kind, fmt.Sprintf("%s: HTTP status %d body %q", desc, code, body), s.Hist)
							} else if bytes.Contains([]byte(body), []byte("s1")) || bytes.Contains([]byte(body), []byte("czE")) {
								fs.add("http-denial-leaks", fmt.Sprintf("%s: body %q", desc, body), s.Hist)
							}
							if hx.DumpKey(d) != before {
								fs.add("denied-but-changed-http:"+c.Kind, desc, s.Hist)
							}
							continue
						}
						nontriv++
						// allowed: must equal what the superuser gets on a copy of the same state
						dsu, _, err := OpenFile(dirSu, s.File)
						if err != nil {
							fs.add("reopen-failed", err.Error(), s.Hist)
							continue
						}
						want := run(dsu, hx.Super(), c, name)
						wantState := hx.DumpKey(dsu)
						var dd *db.DB = d
						if c.mutating() {
							dd, _, _ = OpenFile(dir, s.File)
						}
						preState := hx.DumpKey(dd)
						got := run(dd, caller, c, name)
						// whatever the call changed, the caller must have been allowed that action on every name that changed
						for _, n := range changedNames(preState, hx.DumpKey(dd)) {
							if !model.Allow(ref, c.action(), n) {
								fs.add("effect-on-unpermitted-name:"+c.Kind, fmt.Sprintf("%s: the call changed %q, on which no rule of the caller allows %s", desc, n, c.action()), s.Hist)
							}
						}
						// a call addresses exactly the name it was given: it changes no other name, and a name
						// the database does not hold is not found, however it is spelled
						for _, n := range changedNames(preState, hx.DumpKey(dd)) {
							if n != name {
								fs.add("effect-on-another-name:"+c.Kind, fmt.Sprintf("%s: the call was addressed to %q and changed %q", desc, name, n), s.Hist)
							}
						}
						if _, held := s.Model.S[name]; !held && !strings.HasPrefix(name, model.ReservedPrefix) && !c.mutating() && got.Class == model.OK {
							fs.add("absent-name-served:"+c.Kind, fmt.Sprintf("%s: the database holds no secret of that name, yet the call returned %q", desc, got.Text), s.Hist)
						}
						if got.Class != want.Class || got.Text != want.Text || hx.DumpKey(dd) != wantState {
							fs.add("allowed-differs:"+c.Kind, fmt.Sprintf("%s: got %v %q state %s; superuser gets %v %q state %s", desc, got.Class, got.Text, hx.DumpKey(dd), want.Class, want.Text, wantState), s.Hist)
						}
						if c.mutating() {
							d, _, _ = OpenFile(dir, s.File)
							mux = newMux(d, rs)
						}
					}
				}
				// a different rule set that prints the same (patterns or actions joined by a space) is a
				// different rule set: list on the same live database right after the first caller's list
				if tw := lookAlike(rs); tw != nil {
					run(d, caller, call{Kind: "list"}, "a")
					twRef := toRef(tw)
					got := run(d, db.Caller{Principal: hx.Super().Principal, Permissions: tw}, call{Kind: "list"}, "a")
					var want []string
					for _, in := range s.Model.List() {
						if model.Allow(twRef, "info", in.Name) {
							want = append(want, fmt.Sprintf("%s%v@%d", in.Name, vers(in.Versions), in.Active))
						}
					}
					evals++
					if got.Class != model.OK || got.Text != strings.Join(want, ";") {
						fs.add("list-filter-look-alike", fmt.Sprintf("state %s: list by a caller with rules %s right after a caller with rules %s: got %v %q want %q", s.Key, rulesString(tw), rulesString(rs), got.Class, got.Text, strings.Join(want, ";")), s.Hist)
					}
				}
				// refusals must be identical for existing and absent names
				for cs, m := range denials {
					var first, firstName string
					names := make([]string, 0, len(m))
					for n := range m {
						names = append(names, n)
					}
					sort.Strings(names)
					for _, n := range names {
						// error texts name nothing about the secret; compare across all refused targets of the same call
						if first == "" {
							first, firstName = m[n], n
						} else if m[n] != first {
							fs.add("refusal-differs", fmt.Sprintf("state %s rules %s: %s refused as %q for %q but %q for %q", s.Key, rulesString(rs), cs, first, firstName, m[n], n), s.Hist)
						}
					}
				}
				mu.Lock()
				sec.Evaluations += evals
				sec.Nontrivial += nontriv
				if len(sec.Samples) < 3 && len(rs) == 2 && len(s.Hist) == depth {
					sec.Samples = append(sec.Samples, map[string]any{"state": s.Key, "rules": rulesString(rs), "calls": len(c01Calls) * len(c01Targets)})
				}
				mu.Unlock()
			}
		}()
	}
	for _, s := range states {
		for _, rs := range sets {
			ch <- job{s, rs}
		}
	}
	close(ch)
	wg.Wait()
	fs.flush(rep, sec.Name, 3)
}

// lookAlike returns a rule set that differs from rs and whose default formatting is the same: the
// patterns (and the actions) of every rule joined into one string with spaces. nil if rs has no rule
// with two patterns or two actions.
func lookAlike(rs acl.Rules) acl.Rules {
	var out acl.Rules
	differs := false
	for _, r := range rs {
		n := acl.Rule{Action: r.Action, Secret: r.Secret}
		if len(r.Secret) > 1 {
			var ps []string
			for _, p := range r.Secret {
				ps = append(ps, string(p))
			}
			n.Secret = []acl.Secret{acl.Secret(strings.Join(ps, " "))}
			differs = true
		}
		if len(r.Action) > 1 {
			var as []string
			for _, a := range r.Action {
				as = append(as, string(a))
			}
			n.Action = []acl.Action{acl.Action(strings.Join(as, " "))}
			differs = true
		}
		out = append(out, n)
	}
	if !differs {
		return nil
	}
	return out
}

func vers(vs []uint32) []api.SecretVersion {
	out := make([]api.SecretVersion, len(vs))
	for i, v := range vs {
		out[i] = api.SecretVersion(v)
	}
	return out
}

func httpCall(mux *http.ServeMux, c call, name string) (int, string) {
	var path string
	var body any
	switch c.Kind {
	case "info":
		path, body = "/api/info", api.InfoRequest{Name: name}
	case "get":
		path, body = "/api/get", api.GetRequest{Name: name}
	case "getver":
		path, body = "/api/get", api.GetRequest{Name: name, Version: api.SecretVersion(c.Ver)}
	case "getcond":
		path, body = "/api/get", api.GetRequest{Name: name, Version: api.SecretVersion(c.Ver), UpdateIfChanged: true}
	case "put", "putsame":
		path, body = "/api/put", api.PutRequest{Name: name, Value: c.value()}
	case "activate":
		path, body = "/api/activate", api.ActivateRequest{Name: name, Version: api.SecretVersion(c.Ver)}
	case "delver":
		path, body = "/api/delete-version", api.DeleteVersionRequest{Name: name, Version: api.SecretVersion(c.Ver)}
	case "delete":
		path, body = "/api/delete", api.DeleteRequest{Name: name}
	}
	bs, _ := json.Marshal(body)
	req := httptest.NewRequest("POST", path, bytes.NewReader(bs))
	req.RemoteAddr = "100.64.0.9:1234"
	req.Header.Set("Content-Type", "application/json")
	req.Header.Set("Sec-X-Tailscale-No-Browsers", "setec")
	rec := httptest.NewRecorder()
	mux.ServeHTTP(rec, req)
	return rec.Code, rec.Body.String()
}

// changedNames lists the names whose entry differs between two canonical dumps.
func changedNames(before, after string) []string {
	var a, b map[string]json.RawMessage
	json.Unmarshal([]byte(before), &a)
	json.Unmarshal([]byte(after), &b)
	var out []string
	for n, v := range a {
		if w, ok := b[n]; !ok || !bytes.Equal(v, w) {
			out = append(out, n)
		}
	}
	for n := range b {
		if _, ok := a[n]; !ok {
			out = append(out, n)
		}
	}
	sort.Strings(out)
	return out
}
