package dbseq
