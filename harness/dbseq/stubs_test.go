package dbseq

import (
	"testing"

	"verif/report"
)

func checkC09(t *testing.T, env *report.Env, rep *report.Report) { t.Fatal("not built") }
func checkC01(t *testing.T, env *report.Env, rep *report.Report) { t.Fatal("not built") }
