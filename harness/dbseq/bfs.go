// Package dbseq is the explicit-state search over operation histories of the
// real database (engine "seqx"): properties C01, C02, C03, C09.
package dbseq

import (
	"fmt"
	"os"
	"path/filepath"
	"sort"
	"sync"

	"github.com/tailscale/setec/db"
	"github.com/tailscale/setec/types/api"

	"verif/hx"
	"verif/model"
)

// Op is one mutating operation of the alphabet.
type Op struct {
	Kind  string `json:"k"` // put activate delver delete
	Name  string `json:"n"`
	Value string `json:"v,omitempty"`
	Ver   uint32 `json:"ver,omitempty"`
}

func (o Op) String() string {
	switch o.Kind {
	case "put":
		return fmt.Sprintf("put(%q,%q)", o.Name, o.Value)
	case "delete":
		return fmt.Sprintf("delete(%q)", o.Name)
	case "observe":
		return "read-everything"
	}
	return fmt.Sprintf("%s(%q,%d)", o.Kind, o.Name, o.Ver)
}

// State is one reachable database state.
type State struct {
	Key   string // canonical dump of the real database
	File  []byte // the database file that holds it
	Model *model.KV
	Hist  []Op // a shortest history reaching it
}

var KEK = hx.NewKEK()

// Result of applying an op to the real database.
type Result struct {
	Class model.Class
	Ver   uint32
	Err   string
}

// Apply runs o on d as the superuser.
func Apply(d *db.DB, c db.Caller, o Op) Result {
	var err error
	var v api.SecretVersion
	switch o.Kind {
	case "put":
		// the caller's buffer is the caller's again once Put returns
		buf := []byte(o.Value)
		v, err = d.Put(c, o.Name, buf)
		for i := range buf {
			buf[i] ^= 0xff
		}
	case "activate":
		err = d.Activate(c, o.Name, api.SecretVersion(o.Ver))
	case "delver":
		err = d.DeleteVersion(c, o.Name, api.SecretVersion(o.Ver))
	case "delete":
		err = d.Delete(c, o.Name)
	default:
		panic("bad op")
	}
	r := Result{Class: hx.Classify(err), Ver: uint32(v)}
	if err != nil {
		r.Err = err.Error()
	}
	return r
}

// ApplyModel runs o on the model; it returns the acceptable classes and the version.
func ApplyModel(k *model.KV, o Op) (uint32, []model.Class) {
	switch o.Kind {
	case "put":
		return k.Put(o.Name, o.Value)
	case "activate":
		return 0, k.Activate(o.Name, o.Ver)
	case "delver":
		return 0, k.DeleteVersion(o.Name, o.Ver)
	case "delete":
		return 0, k.Delete(o.Name)
	}
	panic("bad op")
}

// OpenFile opens a database whose file has the given contents (nil: create).
func OpenFile(dir string, file []byte) (*db.DB, string, error) {
	path := filepath.Join(dir, "db")
	os.Remove(path)
	if file != nil {
		if err := os.WriteFile(path, file, 0o600); err != nil {
			return nil, path, err
		}
	}
	d, err := db.Open(path, KEK, hx.Discard())
	return d, path, err
}

// Trans is what the search reports for every transition.
type Trans struct {
	From *State
	Op   Op
	Res  Result
	To   *State // nil if the step violated the model (not expanded)
	New  bool
	// After is the live database after the step (still open), for extra oracles.
	After *db.DB
	Dir   string
}

// BFS explores all histories over alphabet up to depth.  For every transition
// it reopens the state's file (restart before every operation), applies the
// operation with real code and the model in lock-step, and calls check (from
// several goroutines).  The returned slice holds all distinct states.
func BFS(alphabet []Op, depth int, workers int, check func(tr *Trans) error, fail func(key, msg string, hist []Op)) (states []*State, transitions int64) {
	dir0 := hx.Scratch("seq-init-")
	defer os.RemoveAll(dir0)
	d, path, err := OpenFile(dir0, nil)
	if err != nil {
		panic(err)
	}
	file, _ := os.ReadFile(path)
	init := &State{Key: hx.DumpKey(d), File: file, Model: model.NewKV()}
	seen := map[string]*State{init.Key: init}
	states = []*State{init}
	frontier := []*State{init}
	var mu sync.Mutex
	for lvl := 0; lvl < depth && len(frontier) > 0; lvl++ {
		var next []*State
		var wg sync.WaitGroup
		ch := make(chan *State)
		for w := 0; w < workers; w++ {
			wg.Add(1)
			go func() {
				defer wg.Done()
				dir := hx.Scratch("seq-")
				defer os.RemoveAll(dir)
				for s := range ch {
					for _, o := range alphabet {
						d, path, err := OpenFile(dir, s.File)
						if err != nil {
							fail("reopen-failed", fmt.Sprintf("reopening the database after history %v failed: %v", s.Hist, err), s.Hist)
							continue
						}
						if k := hx.DumpKey(d); k != s.Key {
							fail("reopen-differs", fmt.Sprintf("state after reopen differs: history %v: want %s got %s", s.Hist, s.Key, k), s.Hist)
							continue
						}
						res := Apply(d, hx.Super(), o)
						m := s.Model.Clone()
						wantV, acc := ApplyModel(m, o)
						hist := append(append([]Op{}, s.Hist...), o)
						tr := &Trans{From: s, Op: o, Res: res, After: d, Dir: dir}
						mu.Lock()
						transitions++
						mu.Unlock()
						if !model.In(res.Class, acc) {
							fail("result-class:"+o.String(), fmt.Sprintf("after %v: %v returned %v (%s), model accepts %v", s.Hist, o, res.Class, res.Err, acc), hist)
							continue
						}
						if res.Class == model.OK && o.Kind == "put" && res.Ver != wantV {
							fail("put-version", fmt.Sprintf("after %v: %v returned version %d, model says %d", s.Hist, o, res.Ver, wantV), hist)
							continue
						}
						if res.Class != model.OK {
							m = s.Model.Clone() // failed calls change nothing
						}
						key := hx.DumpKey(d)
						if key != m.Key() {
							fail("state-differs", fmt.Sprintf("after %v then %v (=%v v%d): database state %s, model %s", s.Hist, o, res.Class, res.Ver, key, m.Key()), hist)
							continue
						}
						nf, _ := os.ReadFile(path)
						mu.Lock()
						to := seen[key]
						isNew := false
						if to == nil {
							to = &State{Key: key, File: nf, Model: m, Hist: hist}
							seen[key] = to
							next = append(next, to)
							states = append(states, to)
							isNew = true
						}
						mu.Unlock()
						tr.To, tr.New = to, isNew
						if check != nil {
							if err := check(tr); err != nil {
								fail("check:"+firstWord(err.Error()), fmt.Sprintf("after %v then %v: %v", s.Hist, o, err), hist)
							}
						}
					}
				}
			}()
		}
		for _, s := range frontier {
			ch <- s
		}
		close(ch)
		wg.Wait()
		sort.Slice(next, func(i, j int) bool { return next[i].Key < next[j].Key })
		frontier = next
	}
	return states, transitions
}

func firstWord(s string) string {
	for i, c := range s {
		if c == ' ' || c == ':' {
			return s[:i]
		}
	}
	return s
}

// Names used by observers.
var ObsNames = []string{"a", "b", "zz", "", "_internal/x", "_internal/a", " a", "a "}

// Alphabet builds the C02 alphabet.
func Alphabet(names []string, values []string, vers []uint32, bad bool) []Op {
	var out []Op
	for _, n := range names {
		for _, v := range values {
			out = append(out, Op{Kind: "put", Name: n, Value: v})
		}
	}
	for _, n := range names {
		for _, k := range vers {
			out = append(out, Op{Kind: "activate", Name: n, Ver: k})
		}
		for _, k := range vers {
			out = append(out, Op{Kind: "delver", Name: n, Ver: k})
		}
		out = append(out, Op{Kind: "delete", Name: n})
	}
	if bad {
		// a name with surrounding whitespace is an ordinary, distinct name
		out = append(out, Op{Kind: "put", Name: " a", Value: "w"}, Op{Kind: "activate", Name: " a", Ver: 1}, Op{Kind: "delete", Name: " a"})
		for _, n := range []string{"", "_internal/x"} {
			out = append(out, Op{Kind: "put", Name: n, Value: "x"}, Op{Kind: "activate", Name: n, Ver: 1}, Op{Kind: "delver", Name: n, Ver: 1}, Op{Kind: "delete", Name: n})
		}
		// the reserved prefix in front of an existing ordinary name must not reach that name
		for _, k := range []uint32{1, 2} {
			out = append(out, Op{Kind: "activate", Name: "_internal/a", Ver: k}, Op{Kind: "delver", Name: "_internal/a", Ver: k})
		}
		out = append(out, Op{Kind: "put", Name: "_internal/a", Value: "x"}, Op{Kind: "delete", Name: "_internal/a"})
	}
	return out
}
