package dbseq

import (
	"context"
	"encoding/base64"
	"fmt"
	"os"
	"path/filepath"
	"strings"
	"testing"

	"github.com/tailscale/setec/client/setec"
	"github.com/tailscale/setec/types/api"

	"verif/hx"
	"verif/model"
	"verif/report"
)

// c09Files: the file-backed client on hand-written secrets files. Every entry shape (binary value,
// text value, both, neither) × version member (absent, 0, 1, 2) for two names, and every V. The
// oracle uses only the statement: V = 0 answers exactly like an unconditional Get; V != 0 answers
// not-changed iff Get would deliver version V, and otherwise exactly like Get; an entry with a
// version >= 1 and a value is served with that version and those bytes.
func c09Files(t *testing.T, env *report.Env, rep *report.Report) {
	sec := rep.Add(&report.Section{Name: "fileclient-hand-written-files", Engine: "enum", Exhaustive: true, Extra: map[string]int64{},
		Rule: "every secrets file with entries a and b drawn from {absent, value kind {Value, TextValue, both, neither} × Version member {absent, 0, 1, 2}} × name {a, b, zz} × V {0,1,2,3}: FileClient.GetIfChanged against FileClient.Get and the statement; non-trivial = probes of entries that exist in the file"})
	type entry struct {
		present bool
		kind    string // value, text, both, none
		ver     int    // -1 = member absent
	}
	var entries []entry
	entries = append(entries, entry{})
	for _, k := range []string{"value", "text", "both", "none"} {
		for _, v := range []int{-1, 0, 1, 2} {
			entries = append(entries, entry{true, k, v})
		}
	}
	render := func(name string, e entry) string {
		var m []string
		if e.kind == "value" || e.kind == "both" {
			m = append(m, fmt.Sprintf(`"Value":"%s"`, base64.StdEncoding.EncodeToString([]byte("bin-"+name))))
		}
		if e.kind == "text" || e.kind == "both" {
			m = append(m, fmt.Sprintf(`"TextValue":"text-%s"`, name))
		}
		if e.ver >= 0 {
			m = append(m, fmt.Sprintf(`"Version":%d`, e.ver))
		}
		return fmt.Sprintf(`"%s":{"secret":{%s}}`, name, strings.Join(m, ","))
	}
	dir := hx.Scratch("c09f-")
	defer os.RemoveAll(dir)
	path := filepath.Join(dir, "secrets.json")
	ctx := context.Background()
	for _, ea := range entries {
		for _, eb := range entries {
			var parts []string
			if ea.present {
				parts = append(parts, render("a", ea))
			}
			if eb.present {
				parts = append(parts, render("b", eb))
			}
			doc := "{" + strings.Join(parts, ",") + "}"
			if err := os.WriteFile(path, []byte(doc), 0o600); err != nil {
				t.Fatal(err)
			}
			sec.States++
			fc, err := setec.NewFileClient(path)
			if err != nil {
				rep.Violate(sec.Name, "fileclient-open", fmt.Sprintf("file %s: NewFileClient: %v", doc, err), map[string]any{"doc": doc})
				continue
			}
			for name, e := range map[string]entry{"a": ea, "b": eb, "zz": {}} {
				get := outOf(fc.Get(ctx, name))
				if e.present && e.ver >= 1 && e.kind != "none" {
					want := getOut{ver: uint32(e.ver), val: "bin-" + name}
					if e.kind == "text" || e.kind == "both" {
						want.val = "text-" + name
					}
					if get != want && !(e.kind == "both" && get == (getOut{ver: uint32(e.ver), val: "bin-" + name})) {
						rep.Violate(sec.Name, "fileclient-get", fmt.Sprintf("file %s: Get(%s) = %v, want %v", doc, name, get, want), map[string]any{"doc": doc})
					}
				}
				if !e.present && get.class != model.NotFound {
					rep.Violate(sec.Name, "fileclient-get-absent", fmt.Sprintf("file %s: Get(%s) = %v for a name that is not in the file", doc, name, get), map[string]any{"doc": doc})
				}
				for _, v := range []uint32{0, 1, 2, 3} {
					sec.Evaluations++
					if e.present {
						sec.Nontrivial++
					}
					got := outOf(fc.GetIfChanged(ctx, name, api.SecretVersion(v)))
					want := get
					if v != 0 && get.class == model.OK && get.ver == v {
						want = getOut{class: model.NotChanged}
					}
					if got != want {
						rep.Violate(sec.Name, fmt.Sprintf("fileclient-getifchanged/V%d", v), fmt.Sprintf("file %s: GetIfChanged(%s,%d) = %v, but Get(%s) = %v, so the statement asks for %v", doc, name, v, got, name, get, want), map[string]any{"doc": doc, "name": name, "v": v})
					}
				}
			}
		}
	}
	sec.Transitions = sec.Evaluations
	sec.Samples = append(sec.Samples, fmt.Sprintf("%d files × 3 names × 4 values of V", sec.States))
}
