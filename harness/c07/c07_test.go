// Harness for C07: ACL patterns are whole-name globs.  Exhaustive over a small
// alphabet: every (pattern, name) pair up to a length bound against an
// independent dynamic-programming matcher, and every rule-set shape against a
// reference evaluator.
package c07

import (
	"encoding/json"
	"fmt"
	"slices"
	"sync"
	"testing"

	"github.com/tailscale/setec/acl"

	"verif/model"
	"verif/report"
)

var sigma = []string{"a", "b", "*", "/", ".", "\n", "$", "\\", "[", "é"}

func stringsUpTo(n int) []string {
	out := []string{""}
	prev := []string{""}
	for l := 1; l <= n; l++ {
		var cur []string
		for _, p := range prev {
			for _, s := range sigma {
				cur = append(cur, p+s)
			}
		}
		out = append(out, cur...)
		prev = cur
	}
	return out
}

func stringsOver(symbols []string, n int) []string {
	out := []string{""}
	prev := []string{""}
	for l := 1; l <= n; l++ {
		var cur []string
		for _, p := range prev {
			for _, s := range symbols {
				cur = append(cur, p+s)
			}
		}
		out = append(out, cur...)
		prev = cur
	}
	return out
}

func safeMatch(p acl.Secret, name string) (res bool, panicked any) {
	defer func() {
		if r := recover(); r != nil {
			panicked = r
		}
	}()
	return p.Match(name), nil
}

func TestCheck(t *testing.T) {
	env := report.FromEnv()
	rep := env.New("C07")
	defer rep.Guard(env)
	rep.Assumptions = []string{
		"exhaustive over the alphabet {a, b, *, /, ., newline, $, backslash, [, é} up to the length bound, and over a punctuation alphabet {a * % ( ) + ? { ^ | ] - space} one length shorter; the property's 'random Unicode strings up to a few hundred bytes' part is sampling and is not performed",
	}
	n := 3
	if env.Thorough() {
		n = 4
	}
	runPairs := func(strs []string, sec *report.Section) {
		type mism struct{ pat, name, detail string }
		var mu sync.Mutex
		var mismatches []mism
		var evals, nontriv int64
		var wg sync.WaitGroup
		workers := 16
		for w := 0; w < workers; w++ {
			wg.Add(1)
			go func(w int) {
				defer wg.Done()
				var e, nt int64
				var local []mism
				for i := w; i < len(strs); i += workers {
					if !env.Mine(int64(i)) {
						continue
					}
					pat := strs[i]
					for _, name := range strs {
						want := model.GlobMatch(pat, name)
						got, pan := safeMatch(acl.Secret(pat), name)
						e++
						if want {
							nt++
						}
						if pan != nil {
							local = append(local, mism{pat, name, fmt.Sprintf("panic: %v", pan)})
						} else if got != want {
							local = append(local, mism{pat, name, fmt.Sprintf("Match=%v, reference=%v", got, want)})
						}
					}
					if env.Expired() {
						break
					}
				}
				mu.Lock()
				evals += e
				nontriv += nt
				mismatches = append(mismatches, local...)
				mu.Unlock()
			}(w)
		}
		wg.Wait()
		if env.Expired() {
			sec.Exhaustive = false
		}
		sec.Evaluations, sec.Nontrivial, sec.States, sec.Transitions = evals, nontriv, int64(len(strs)), evals
		sec.Samples = append(sec.Samples, map[string]any{"pattern": "a*/", "name": "ab/", "reference": model.GlobMatch("a*/", "ab/")}, map[string]any{"pattern": "*", "name": "a\nb", "reference": true})
		// report the shortest mismatches, classified
		classOf := func(m mism) string {
			hasNL := false
			for _, c := range m.name {
				if c == '\n' {
					hasNL = true
				}
			}
			switch {
			case len(m.detail) > 5 && m.detail[:5] == "panic":
				return "panic"
			case hasNL:
				return "newline-in-name"
			}
			return "other"
		}
		best := map[string]mism{}
		count := map[string]int64{}
		for _, m := range mismatches {
			c := classOf(m)
			count[c]++
			b, ok := best[c]
			if !ok || len(m.pat)+len(m.name) < len(b.pat)+len(b.name) || (len(m.pat)+len(m.name) == len(b.pat)+len(b.name) && m.pat+"|"+m.name < b.pat+"|"+b.name) {
				best[c] = m
			}
		}
		for c, m := range best {
			rep.Violate(sec.Name, fmt.Sprintf("match/%s: pattern %q name %q", c, m.pat, m.name), fmt.Sprintf("pattern %q vs name %q: %s (%d mismatches of this class)", m.pat, m.name, m.detail, count[c]), map[string]any{"pattern": m.pat, "name": m.name})
		}

	}
	strs := stringsUpTo(n)
	runPairs(strs, rep.Add(&report.Section{Name: fmt.Sprintf("match-all-pairs-len%d", n), Engine: "enum", Exhaustive: true, Extra: map[string]int64{},
		Rule: "every (pattern, name) with both strings over the 10-symbol alphabet up to the length bound: acl.Secret.Match vs the DP glob matcher; non-trivial = pairs where the pattern contains '*' and the reference says match, or the pattern has no '*' and equals the name"}))
	// a second alphabet of punctuation that means something to regexp or fmt, one length shorter
	punct := stringsOver([]string{"a", "*", "%", "(", ")", "+", "?", "{", "^", "|", "]", "-", " "}, n-1)
	runPairs(punct, rep.Add(&report.Section{Name: fmt.Sprintf("match-all-pairs-punctuation-len%d", n-1), Engine: "enum", Exhaustive: true, Extra: map[string]int64{},
		Rule: "every (pattern, name) with both strings over {a, *, %, (, ), +, ?, {, ^, |, ], -, space} up to the length bound: acl.Secret.Match vs the DP glob matcher"}))
	// a third, tiny alphabet taken much deeper: patterns with many wildcards and repeated pieces
	deep := n + 3
	runPairs(stringsOver([]string{"a", "b", "*"}, deep), rep.Add(&report.Section{Name: fmt.Sprintf("match-all-pairs-three-symbols-len%d", deep), Engine: "enum", Exhaustive: true, Extra: map[string]int64{},
		Rule: "every (pattern, name) with both strings over {a, b, *} up to the length bound (patterns with up to that many wildcards, pieces that recur in the name): acl.Secret.Match vs the DP glob matcher"}))
	// a fourth alphabet around regexp quoting: backslash with the letters that open and close a quoted run
	runPairs(stringsOver([]string{"a", "*", "\\", "E", "Q"}, n+1), rep.Add(&report.Section{Name: fmt.Sprintf("match-all-pairs-quoting-len%d", n+1), Engine: "enum", Exhaustive: true, Extra: map[string]int64{},
		Rule: "every (pattern, name) with both strings over {a, *, backslash, E, Q} up to the length bound: acl.Secret.Match vs the DP glob matcher"}))
	// rule-set shapes
	rs := rep.Add(&report.Section{Name: "rule-set-shapes", Engine: "enum", Exhaustive: true, Extra: map[string]int64{},
		Rule: "every rule set of 0-2 rules, each with 0-2 actions from {get, put} and 0-2 patterns from {a*, *b, a/b, a, b, a<newline>b}, × action {get, put, info} × names, evaluated in one process in forward and then in reverse order: Rules.Allow vs the reference; empty set allows nothing; monotone under adding a rule; no panic; non-trivial = evaluations the reference allows"})
	acts := []acl.Action{acl.ActionGet, acl.ActionPut}
	pats := []acl.Secret{"a*", "*b", "a/b", "a", "b", "a\nb"}
	var actSets [][]acl.Action
	actSets = append(actSets, nil)
	for i, a := range acts {
		actSets = append(actSets, []acl.Action{a})
		for _, b := range acts[i+1:] {
			actSets = append(actSets, []acl.Action{a, b})
		}
	}
	var patSets [][]acl.Secret
	patSets = append(patSets, nil)
	for i, a := range pats {
		patSets = append(patSets, []acl.Secret{a})
		for _, b := range pats[i+1:] {
			patSets = append(patSets, []acl.Secret{a, b})
		}
	}
	var rules []acl.Rule
	for _, as := range actSets {
		for _, ps := range patSets {
			rules = append(rules, acl.Rule{Action: as, Secret: ps})
		}
	}
	sets := []acl.Rules{nil}
	for i := range rules {
		sets = append(sets, acl.Rules{rules[i]})
	}
	for i := range rules {
		for j := range rules {
			sets = append(sets, acl.Rules{rules[i], rules[j]})
		}
	}
	names := []string{"", "a", "b", "ab", "a/b", "ba", "a\nb", "a/bb", "c"}
	queries := []acl.Action{acl.ActionGet, acl.ActionPut, acl.ActionInfo}
	toRef := func(rr acl.Rules) []model.Rule {
		var out []model.Rule
		for _, r := range rr {
			var m model.Rule
			for _, a := range r.Action {
				m.Actions = append(m.Actions, string(a))
			}
			for _, s := range r.Secret {
				m.Patterns = append(m.Patterns, string(s))
			}
			out = append(out, m)
		}
		return out
	}
	allow := func(rr acl.Rules, a acl.Action, n string) (res bool, p any) {
		defer func() {
			if r := recover(); r != nil {
				p = r
			}
		}()
		return rr.Allow(a, n), nil
	}
	// two passes, the second in reverse order: an evaluation must not depend on which rule sets
	// were evaluated before it in the same process
	order := make([]int, 0, 2*len(sets))
	for i := range sets {
		order = append(order, i)
	}
	for i := len(sets) - 1; i >= 0; i-- {
		order = append(order, i)
	}
	for _, si := range order {
		set := sets[si]
		ref := toRef(set)
		for _, a := range queries {
			for _, nm := range names {
				want := model.Allow(ref, string(a), nm)
				got, pan := allow(set, a, nm)
				rs.Evaluations++
				if want {
					rs.Nontrivial++
				}
				if pan != nil || got != want {
					kind := "allow"
					for _, c := range nm {
						if c == '\n' {
							kind = "allow-newline-in-name"
						}
					}
					rep.Violate(rs.Name, fmt.Sprintf("rules/%s", kind), fmt.Sprintf("rules %+v: Allow(%s,%q)=%v panic=%v, reference %v", set, a, nm, got, pan, want), map[string]any{"set": si})
				}
				if len(set) == 0 && got {
					rep.Violate(rs.Name, "rules/empty-allows", fmt.Sprintf("empty rule set allows (%s,%q)", a, nm), nil)
				}
				// monotonicity: adding any rule never revokes
				if got && len(set) == 1 {
					for _, extra := range rules {
						if g2, _ := allow(append(acl.Rules{extra}, set...), a, nm); !g2 {
							rep.Violate(rs.Name, "rules/not-monotone", fmt.Sprintf("rules %+v allow (%s,%q) but adding %+v revokes it", set, a, nm, extra), nil)
						}
						rs.Extra["monotonicity_checks"]++
					}
				}
			}
		}
	}
	rs.States, rs.Transitions = int64(len(sets)), rs.Evaluations
	// A rule set's answer must depend on what the rule set holds now, not on what the same storage held
	// when it was consulted before: every ordered pair of one-rule sets goes through one reused variable.
	ru := rep.Add(&report.Section{Name: "rule-storage-reused", Engine: "enum", Exhaustive: true, Extra: map[string]int64{},
		Rule: "every ordered pair (R1, R2) of the one-rule sets above through one acl.Rules variable: consult it holding R1 (all actions × names), replace its contents by R2 in three ways {assign the Action and Secret fields in place, copy the rule value and give the copy R2's fields, decode R2's JSON into the same variable as a policy reload does}, consult again: every answer must equal the reference for R2; non-trivial = answers that differ between R1 and R2"})
	for i := range rules {
		for j := range rules {
			r1, r2 := rules[i], rules[j]
			ref2, ref1 := toRef(acl.Rules{r2}), toRef(acl.Rules{r1})
			js, err := json.Marshal(acl.Rules{r2})
			if err != nil {
				t.Fatal(err)
			}
			for _, how := range []string{"fields assigned in place", "copied rule value given new fields", "JSON decoded into the same variable"} {
				// private copies: decoding JSON into the variable writes into the slices it holds
				buf := acl.Rules{{Action: slices.Clone(r1.Action), Secret: slices.Clone(r1.Secret)}}
				for _, a := range queries {
					for _, nm := range names {
						allow(buf, a, nm)
					}
				}
				switch how {
				case "fields assigned in place":
					buf[0].Action, buf[0].Secret = r2.Action, r2.Secret
				case "copied rule value given new fields":
					c := buf[0]
					c.Action, c.Secret = r2.Action, r2.Secret
					buf = acl.Rules{c}
				default:
					if err := json.Unmarshal(js, &buf); err != nil {
						t.Fatal(err)
					}
				}
				for _, a := range queries {
					for _, nm := range names {
						want := model.Allow(ref2, string(a), nm)
						got, pan := allow(buf, a, nm)
						ru.Evaluations++
						if want != model.Allow(ref1, string(a), nm) {
							ru.Nontrivial++
						}
						if pan != nil || got != want {
							rep.Violate(ru.Name, "rules/stale-after-reuse: "+how, fmt.Sprintf("a rule set variable that held %+v and was consulted, then holds %+v (%s): Allow(%s,%q)=%v panic=%v, reference for the current contents %v", r1, r2, how, a, nm, got, pan, want), map[string]any{"first": i, "second": j, "how": how})
						}
					}
				}
			}
		}
	}
	ru.States, ru.Transitions = int64(len(rules)*len(rules)*3), ru.Evaluations
	ru.Samples = append(ru.Samples, fmt.Sprintf("%d rules × %d rules × 3 ways × %d actions × %d names", len(rules), len(rules), len(queries), len(names)))
	rs.Samples = append(rs.Samples, fmt.Sprintf("%d rule sets × %d actions × %d names", len(sets), len(queries), len(names)))
	if err := rep.Write(env); err != nil {
		t.Fatal(err)
	}
}
