// Harness for C08: the HTTP front door.  The full product of endpoint ×
// method × content type × browser header × WhoIs answer × body × database
// state is driven through the registered mux handlers in-process and compared
// with a decision table written from the property statement; accepted requests
// are compared differentially with the same operation at the db.DB API.
package c08

import (
	"bytes"
	"context"
	"encoding/base64"
	"encoding/json"
	"errors"
	"fmt"
	"net/http"
	"net/http/httptest"
	"os"
	"path/filepath"
	"strings"
	"sync"
	"testing"

	"github.com/tailscale/setec/acl"
	"github.com/tailscale/setec/audit"
	"github.com/tailscale/setec/db"
	"github.com/tailscale/setec/server"
	"github.com/tailscale/setec/types/api"
	"tailscale.com/client/tailscale/apitype"
	"tailscale.com/tailcfg"

	"verif/hx"
	"verif/model"
	"verif/report"
)

const (
	m1 = "MARK1-\x00\xfe-Qz8Lp2Xv7Rk4"
	m2 = "MARK2-<&>-Jd6Ty1Wn9Ub3"
	m3 = "MARK3-plain-Hs5Gc0Fa8Eo"
)

var markers = [][]byte{[]byte(m1), []byte(m2), []byte(m3),
	[]byte(base64.StdEncoding.EncodeToString([]byte(m1))), []byte(base64.StdEncoding.EncodeToString([]byte(m2))), []byte(base64.StdEncoding.EncodeToString([]byte(m3)))}

func leaks(b []byte) bool {
	for _, m := range markers {
		if bytes.Contains(b, m) {
			return true
		}
	}
	return false
}

var kek = hx.NewKEK()

type dbState struct {
	name string
	file []byte
}

func mkStates(base string) []dbState {
	var out []dbState
	for i, hist := range [][]func(d *db.DB){
		nil,
		{func(d *db.DB) { d.Put(hx.Super(), "a", []byte(m1)) }},
		{func(d *db.DB) { d.Put(hx.Super(), "a", []byte(m1)) }, func(d *db.DB) { d.Put(hx.Super(), "a", []byte(m2)) },
			func(d *db.DB) { d.Activate(hx.Super(), "a", 2) }, func(d *db.DB) { d.Put(hx.Super(), "b", []byte(m3)) }},
	} {
		p := filepath.Join(base, fmt.Sprintf("state%d", i))
		os.Remove(p)
		d, err := db.Open(p, kek, hx.Discard())
		if err != nil {
			panic(err)
		}
		for _, f := range hist {
			f(d)
		}
		b, _ := os.ReadFile(p)
		out = append(out, dbState{name: []string{"empty", "a1", "a12b1"}[i], file: b})
	}
	return out
}

type sink struct{ buf bytes.Buffer }

func (s *sink) Write(p []byte) (int, error) { return s.buf.Write(p) }

type who struct {
	name      string
	fn        func(context.Context, string) (*apitype.WhoIsResponse, error)
	reject    bool      // the tailnet cannot identify the caller
	rules     acl.Rules // effective rules when identified
	user      string
	tags      []string
	ambiguous bool
}

func raw(rs acl.Rules) []tailcfg.RawMessage {
	var out []tailcfg.RawMessage
	for _, r := range rs {
		b, _ := json.Marshal(r)
		out = append(out, tailcfg.RawMessage(b))
	}
	return out
}

var full = acl.Rules{{Action: hx.AllActions, Secret: []acl.Secret{"*"}}}
var limited = acl.Rules{{Action: []acl.Action{acl.ActionInfo}, Secret: []acl.Secret{"a*"}}, {Action: []acl.Action{acl.ActionGet}, Secret: []acl.Secret{"b"}}}

const httpsCap = "https://" + server.ACLCap

func whos() []who {
	user := func(cm tailcfg.PeerCapMap) func(context.Context, string) (*apitype.WhoIsResponse, error) {
		return func(context.Context, string) (*apitype.WhoIsResponse, error) {
			return &apitype.WhoIsResponse{Node: &tailcfg.Node{Name: "host.example.ts.net"}, UserProfile: &tailcfg.UserProfile{ID: 7, LoginName: "alice@example.com"}, CapMap: cm}, nil
		}
	}
	return []who{
		{name: "user-full", fn: user(tailcfg.PeerCapMap{server.ACLCap: raw(full)}), rules: full, user: "alice@example.com"},
		{name: "tagged-full", fn: func(context.Context, string) (*apitype.WhoIsResponse, error) {
			return &apitype.WhoIsResponse{Node: &tailcfg.Node{Name: "srv.example.ts.net", Tags: []string{"tag:prod", "tag:db"}}, UserProfile: &tailcfg.UserProfile{ID: 8, LoginName: "tagged-devices"}, CapMap: tailcfg.PeerCapMap{server.ACLCap: raw(full)}}, nil
		}, rules: full, tags: []string{"tag:prod", "tag:db"}},
		{name: "user-limited", fn: user(tailcfg.PeerCapMap{server.ACLCap: raw(limited)}), rules: limited, user: "alice@example.com"},
		{name: "user-https-only", fn: user(tailcfg.PeerCapMap{httpsCap: raw(full)}), rules: full, user: "alice@example.com"},
		{name: "user-both-names", fn: user(tailcfg.PeerCapMap{server.ACLCap: raw(limited), httpsCap: raw(full)}), rules: limited, user: "alice@example.com"},
		{name: "user-no-grant", fn: user(tailcfg.PeerCapMap{}), rules: nil, user: "alice@example.com"},
		{name: "lookup-error", fn: func(context.Context, string) (*apitype.WhoIsResponse, error) {
			return nil, errors.New("whois failed")
		}, reject: true},
		{name: "anonymous", fn: func(context.Context, string) (*apitype.WhoIsResponse, error) {
			return &apitype.WhoIsResponse{Node: &tailcfg.Node{Name: "x.example.ts.net"}, UserProfile: &tailcfg.UserProfile{}, CapMap: tailcfg.PeerCapMap{server.ACLCap: raw(full)}}, nil
		}, reject: true},
		{name: "malformed-grant", fn: user(tailcfg.PeerCapMap{server.ACLCap: []tailcfg.RawMessage{`{"action": 5, "secret": "x"}`}}), reject: true},
		{name: "malformed-https-grant-unused", fn: user(tailcfg.PeerCapMap{server.ACLCap: raw(full), httpsCap: []tailcfg.RawMessage{`{"action": 5}`}}), rules: full, user: "alice@example.com", ambiguous: true},
	}
}

type body struct {
	name    string
	data    string
	class   string // valid | zero | notjson | ambiguous
	decoded any    // the request it stands for when valid/zero
}

func b64(s string) string { return base64.StdEncoding.EncodeToString([]byte(s)) }

func bodiesFor(ep string) []body {
	common := []body{
		{name: "empty", data: "", class: "notjson"},
		{name: "non-json", data: "hello", class: "notjson"},
		{name: "truncated", data: `{"Name":"a"`, class: "notjson"},
		{name: "array", data: `[1]`, class: "ambiguous"},
		{name: "wrong-types", data: `{"Name":5,"Version":"x","Value":7}`, class: "ambiguous"},
	}
	var v []body
	switch ep {
	case "list":
		v = []body{{"valid", `{}`, "valid", api.ListRequest{}}, {"null", `null`, "zero", api.ListRequest{}}, {"extra", `{"Bogus":1}`, "valid", api.ListRequest{}}}
		common = common[:4] // wrong-types has no typed field to hit
	case "get":
		v = []body{
			{"valid-a", `{"Name":"a"}`, "valid", api.GetRequest{Name: "a"}},
			{"valid-a-v1", `{"Name":"a","Version":1}`, "valid", api.GetRequest{Name: "a", Version: 1}},
			{"valid-a-cond1", `{"Name":"a","Version":1,"UpdateIfChanged":true}`, "valid", api.GetRequest{Name: "a", Version: 1, UpdateIfChanged: true}},
			{"valid-a-cond2", `{"Name":"a","Version":2,"UpdateIfChanged":true}`, "valid", api.GetRequest{Name: "a", Version: 2, UpdateIfChanged: true}},
			{"valid-b", `{"Name":"b"}`, "valid", api.GetRequest{Name: "b"}},
			{"valid-zz", `{"Name":"zz"}`, "valid", api.GetRequest{Name: "zz"}},
			{"zero", `{}`, "zero", api.GetRequest{}}, {"null", `null`, "zero", api.GetRequest{}},
			{"extra", `{"Name":"a","Bogus":[1,2]}`, "valid", api.GetRequest{Name: "a"}},
		}
	case "info":
		v = []body{{"valid-a", `{"Name":"a"}`, "valid", api.InfoRequest{Name: "a"}}, {"valid-zz", `{"Name":"zz"}`, "valid", api.InfoRequest{Name: "zz"}},
			{"zero", `{}`, "zero", api.InfoRequest{}}, {"null", `null`, "zero", api.InfoRequest{}}, {"extra", `{"Name":"a","Bogus":1}`, "valid", api.InfoRequest{Name: "a"}}}
	case "put":
		v = []body{{"valid-a", `{"Name":"a","Value":"` + b64("new-value") + `"}`, "valid", api.PutRequest{Name: "a", Value: []byte("new-value")}},
			{"valid-c", `{"Name":"c","Value":"` + b64("cee") + `"}`, "valid", api.PutRequest{Name: "c", Value: []byte("cee")}},
			{"valid-reserved", `{"Name":"_internal/x","Value":"eA=="}`, "valid", api.PutRequest{Name: "_internal/x", Value: []byte("x")}},
			{"zero", `{}`, "zero", api.PutRequest{}}, {"null", `null`, "zero", api.PutRequest{}},
			{"extra", `{"Name":"a","Value":"eA==","Bogus":1}`, "valid", api.PutRequest{Name: "a", Value: []byte("x")}}}
	case "activate":
		v = []body{{"valid-a-2", `{"Name":"a","Version":2}`, "valid", api.ActivateRequest{Name: "a", Version: 2}}, {"valid-a-1", `{"Name":"a","Version":1}`, "valid", api.ActivateRequest{Name: "a", Version: 1}},
			{"valid-zz", `{"Name":"zz","Version":1}`, "valid", api.ActivateRequest{Name: "zz", Version: 1}},
			{"zero", `{}`, "zero", api.ActivateRequest{}}, {"null", `null`, "zero", api.ActivateRequest{}}}
	case "delete":
		v = []body{{"valid-a", `{"Name":"a"}`, "valid", api.DeleteRequest{Name: "a"}}, {"valid-zz", `{"Name":"zz"}`, "valid", api.DeleteRequest{Name: "zz"}},
			{"zero", `{}`, "zero", api.DeleteRequest{}}, {"null", `null`, "zero", api.DeleteRequest{}}}
	case "delete-version":
		v = []body{{"valid-a-1", `{"Name":"a","Version":1}`, "valid", api.DeleteVersionRequest{Name: "a", Version: 1}}, {"valid-a-2", `{"Name":"a","Version":2}`, "valid", api.DeleteVersionRequest{Name: "a", Version: 2}},
			{"valid-zz", `{"Name":"zz","Version":1}`, "valid", api.DeleteVersionRequest{Name: "zz", Version: 1}},
			{"zero", `{}`, "zero", api.DeleteVersionRequest{}}, {"null", `null`, "zero", api.DeleteVersionRequest{}}}
	}
	return append(v, common...)
}

// direct performs the decoded request at the db.DB API.
func direct(d *db.DB, c db.Caller, req any) (any, error) {
	switch r := req.(type) {
	case api.ListRequest:
		return d.List(c)
	case api.GetRequest:
		if r.Version != 0 {
			if r.UpdateIfChanged {
				return d.GetConditional(c, r.Name, r.Version)
			}
			return d.GetVersion(c, r.Name, r.Version)
		}
		return d.Get(c, r.Name)
	case api.InfoRequest:
		return d.Info(c, r.Name)
	case api.PutRequest:
		return d.Put(c, r.Name, r.Value)
	case api.ActivateRequest:
		return struct{}{}, d.Activate(c, r.Name, r.Version)
	case api.DeleteRequest:
		return struct{}{}, d.Delete(c, r.Name)
	case api.DeleteVersionRequest:
		return struct{}{}, d.DeleteVersion(c, r.Name, r.Version)
	}
	panic("bad request type")
}

func openCopy(dir string, file []byte, aw *audit.Writer) *db.DB {
	p := filepath.Join(dir, "db")
	os.Remove(p)
	os.WriteFile(p, file, 0o600)
	d, err := db.Open(p, kek, aw)
	if err != nil {
		panic(err)
	}
	return d
}

var (
	endpoints = []string{"list", "get", "info", "put", "activate", "delete", "delete-version"}
	methods   = []string{"POST", "GET", "PUT", "DELETE", "HEAD", "PATCH", "OPTIONS"}
	ctypes    = []struct {
		v    string
		set  bool
		kind string // ok | bad | ambiguous
	}{{"application/json", true, "ok"}, {"", false, "bad"}, {"application/json; charset=utf-8", true, "ambiguous"}, {"text/plain", true, "bad"}, {"Application/JSON", true, "ambiguous"},
		// other media types that merely begin with the same letters
		{"application/jsonl", true, "bad"}, {"application/json-seq", true, "bad"}}
	headers = []struct {
		v   string
		set bool
		ok  bool
	}{{"setec", true, true}, {"", false, false}, {"Setec", true, false}, {"1", true, false}, {"", true, false}}
)

func TestCheck(t *testing.T) {
	env := report.FromEnv()
	rep := env.New("C08")
	defer rep.Guard(env)
	rep.Assumptions = []string{
		"handlers are driven in-process with httptest (no sockets, no TLS)",
		"ambiguous inputs (content type with parameters or different case, a body that is JSON of the wrong shape, a malformed grant under a capability name that is not consulted) may be accepted or rejected; the oracle then only requires the respective consequences",
		"WhoIs answers with a nil Node or UserProfile are not produced by the tailscale client and are not in the alphabet",
	}
	base := hx.Scratch("c08-")
	defer os.RemoveAll(base)
	states := mkStates(base)
	sec := rep.Add(&report.Section{Name: "full-product", Engine: "enum", Exhaustive: true, Extra: map[string]int64{}, Outcomes: map[string]int64{},
		Rule: "endpoint(7) × method(7) × content-type(7) × browser-header(5) × WhoIs answer(10) × body(8-14 per endpoint) × database state(3); non-trivial = requests that must be accepted (POST, application/json, header setec, identified caller, decodable body)"})
	type job struct {
		si int
		ep string
	}
	var mu sync.Mutex
	var wg sync.WaitGroup
	ch := make(chan job)
	ws := whos()
	for w := 0; w < 16; w++ {
		wg.Add(1)
		go func() {
			defer wg.Done()
			dir := hx.Scratch("c08w-")
			defer os.RemoveAll(dir)
			rdir := hx.Scratch("c08r-")
			defer os.RemoveAll(rdir)
			for j := range ch {
				st := states[j.si]
				var evals, nontriv int64
				outcomes := map[string]int64{}
				for _, wh := range ws {
					sk := &sink{}
					d := openCopy(dir, st.file, audit.New(sk))
					mux := http.NewServeMux()
					if _, err := server.New(context.Background(), server.Config{DB: d, WhoIs: wh.fn, Mux: mux}); err != nil {
						panic(err)
					}
					for _, bd := range bodiesFor(j.ep) {
						for _, me := range methods {
							for _, ct := range ctypes {
								for _, hd := range headers {
									evals++
									desc := fmt.Sprintf("state=%s %s /api/%s ct=%q(set=%v) hdr=%q(set=%v) whois=%s body=%s", st.name, me, j.ep, ct.v, ct.set, hd.v, hd.set, wh.name, bd.name)
									req := httptest.NewRequest(me, "/api/"+j.ep, strings.NewReader(bd.data))
									req.RemoteAddr = "100.101.102.103:5555"
									if ct.set {
										req.Header.Set("Content-Type", ct.v)
									}
									if hd.set {
										req.Header.Set("Sec-X-Tailscale-No-Browsers", hd.v)
									}
									before := hx.DumpKey(d)
									auditBefore := sk.buf.Len()
									rec := httptest.NewRecorder()
									mux.ServeHTTP(rec, req)
									code, rb := rec.Code, rec.Body.Bytes()
									fail := func(kind, msg string) {
										mu.Lock()
										rep.Violate(sec.Name, "http/"+kind+": "+desc, desc+": "+msg, map[string]any{"desc": desc})
										mu.Unlock()
									}
									mustReject := me != "POST" || ct.kind == "bad" || !hd.ok || wh.reject || bd.class == "notjson"
									ambiguous := ct.kind == "ambiguous" || bd.class == "ambiguous" || wh.ambiguous
									untouched := hx.DumpKey(d) == before && sk.buf.Len() == auditBefore
									if code != 200 && leaks(rb) {
										fail("non-200-leaks", fmt.Sprintf("status %d reply contains secret bytes: %q", code, report.Clip(string(rb), 120)))
									}
									if mustReject {
										if code >= 200 && code <= 299 {
											fail("accepted-ill-formed", fmt.Sprintf("status %d", code))
										}
										if !untouched {
											fail("rejected-with-side-effects", fmt.Sprintf("status %d but database or audit log changed", code))
										}
										outcomes[fmt.Sprintf("reject %d", code)]++
										continue
									}
									if ambiguous && untouched && (code < 200 || code > 299) && code != 304 {
										// an ambiguous input turned away at the door: allowed, and it had no effect
										outcomes[fmt.Sprintf("ambiguous-rejected %d", code)]++
										continue
									}
									if ambiguous && bd.class == "ambiguous" {
										// accepted although the body has the wrong shape: nothing further can be derived
										outcomes[fmt.Sprintf("ambiguous-accepted %d", code)]++
										d = openCopy(dir, st.file, audit.New(sk))
										mux = http.NewServeMux()
										server.New(context.Background(), server.Config{DB: d, WhoIs: wh.fn, Mux: mux})
										continue
									}
									// accepted: compare with the same operation at the DB API on a copy of the state
									nontriv++
									rsk := &sink{}
									rd := openCopy(rdir, st.file, audit.New(rsk))
									caller := db.Caller{Permissions: wh.rules}
									want, werr := direct(rd, caller, bd.decoded)
									wc := hx.Classify(werr)
									// the permission decision is also taken independently of the database code
									if act, nm, ok := actionOf(bd.decoded); ok && !model.Allow(toRef(wh.rules), act, nm) {
										if code != 403 {
											fail("denied-status-independent", fmt.Sprintf("status %d; no rule of the caller grants %s on %q, want 403", code, act, nm))
										}
										if hx.DumpKey(d) != before {
											fail("denied-but-changed", "a request without a matching grant changed the database")
										}
									}
									switch wc {
									case model.OK:
										wb, _ := json.Marshal(want)
										if code != 200 || !bytes.Equal(bytes.TrimSpace(rb), wb) {
											fail("result-differs", fmt.Sprintf("status %d body %q, database API result %q", code, report.Clip(string(rb), 150), report.Clip(string(wb), 150)))
										}
									case model.NotChanged:
										if code != 304 || len(rb) != 0 {
											fail("not-modified", fmt.Sprintf("status %d body %q, want 304 with empty body", code, rb))
										}
									case model.Denied:
										if code != 403 {
											fail("denied-status", fmt.Sprintf("status %d, want 403", code))
										}
									case model.NotFound:
										if code != 404 {
											fail("not-found-status", fmt.Sprintf("status %d, want 404", code))
										}
									default:
										if code < 400 || code == 403 || code == 404 {
											fail("other-failure-status", fmt.Sprintf("status %d for failure %v, want some other 4xx/5xx", code, werr))
										}
									}
									if got, w := hx.DumpKey(d), hx.DumpKey(rd); got != w {
										fail("state-differs", fmt.Sprintf("database after request %s, after the same operation at the API %s", got, w))
									}
									// audit: same number of records as the API call wrote, and the principal is the WhoIs identity + source address
									newRecs := bytes.Split(bytes.TrimSpace(sk.buf.Bytes()[auditBefore:]), []byte("\n"))
									if len(bytes.TrimSpace(sk.buf.Bytes()[auditBefore:])) == 0 {
										newRecs = nil
									}
									for _, r := range newRecs {
										var e audit.Entry
										if err := json.Unmarshal(r, &e); err != nil {
											fail("audit-parse", err.Error())
											continue
										}
										p := e.Principal
										if p.IP.String() != "100.101.102.103" || p.User != wh.user || strings.Join(p.Tags, ",") != strings.Join(wh.tags, ",") {
											fail("audit-principal", fmt.Sprintf("recorded principal %+v, WhoIs identity user=%q tags=%v from 100.101.102.103", p, wh.user, wh.tags))
										}
									}
									outcomes[fmt.Sprintf("accepted %d", code)]++
									if hx.DumpKey(d) != before {
										d = openCopy(dir, st.file, audit.New(sk))
										mux = http.NewServeMux()
										server.New(context.Background(), server.Config{DB: d, WhoIs: wh.fn, Mux: mux})
									}
								}
							}
						}
					}
				}
				mu.Lock()
				sec.Evaluations += evals
				sec.Nontrivial += nontriv
				for k, v := range outcomes {
					sec.Outcomes[k] += v
				}
				mu.Unlock()
			}
		}()
	}
	for si := range states {
		for _, ep := range endpoints {
			ch <- job{si, ep}
		}
	}
	close(ch)
	wg.Wait()
	answerChanges(rep, states)
	sourceAddress(rep, states)
	sec.States, sec.Transitions = int64(len(states)), sec.Evaluations
	sec.Samples = append(sec.Samples, "state=a12b1 POST /api/get ct=application/json hdr=setec whois=user-limited body=valid-b -> 200 with the API's JSON", "state=a1 GET /api/put ... -> non-2xx, database and audit log untouched")
	if err := rep.Write(env); err != nil {
		t.Fatal(err)
	}
}

// actionOf returns the action and name a well-formed request needs a grant for.
func actionOf(req any) (string, string, bool) {
	switch r := req.(type) {
	case api.GetRequest:
		return "get", r.Name, true
	case api.InfoRequest:
		return "info", r.Name, true
	case api.PutRequest:
		return "put", r.Name, r.Name != ""
	case api.ActivateRequest:
		return "activate", r.Name, r.Name != ""
	case api.DeleteRequest:
		return "delete", r.Name, true
	case api.DeleteVersionRequest:
		return "delete", r.Name, true
	}
	return "", "", false
}

func toRef(rs acl.Rules) []model.Rule {
	var out []model.Rule
	for _, r := range rs {
		var m model.Rule
		for _, a := range r.Action {
			m.Actions = append(m.Actions, string(a))
		}
		for _, s := range r.Secret {
			m.Patterns = append(m.Patterns, string(s))
		}
		out = append(out, m)
	}
	return out
}

// answerChanges: one server, two requests from the same address, and the tailnet's answer for that
// address changes in between (a grant withdrawn or widened, the node re-tagged, the lookup failing or
// working again). "The permissions applied are exactly the rules granted in the tailnet's answer for
// the request's source address": the second request must be treated exactly as a fresh server treats
// it under the second answer - status, body, database and audit records.
func answerChanges(rep *report.Report, states []dbState) {
	sec := rep.Add(&report.Section{Name: "tailnet-answer-changes-between-requests", Engine: "enum", Exhaustive: true, Extra: map[string]int64{}, Outcomes: map[string]int64{},
		Rule: "database state(3) × ordered pair of WhoIs answers(10×10) × second request {endpoint(7) × its well-formed bodies} × source port of the second request {same, other}: a well-formed info request under the first answer, then the second request under the second answer on the same server; status, body, database and the audit records it writes must equal those of a fresh server that only ever saw the second answer; non-trivial = pairs whose two answers differ"})
	ws := whos()
	dir := hx.Scratch("c08ac-")
	defer os.RemoveAll(dir)
	rdir := hx.Scratch("c08acr-")
	defer os.RemoveAll(rdir)
	post := func(mux *http.ServeMux, ep, data, addr string) (int, []byte) {
		req := httptest.NewRequest("POST", "/api/"+ep, strings.NewReader(data))
		req.RemoteAddr = addr
		req.Header.Set("Content-Type", "application/json")
		req.Header.Set("Sec-X-Tailscale-No-Browsers", "setec")
		rec := httptest.NewRecorder()
		mux.ServeHTTP(rec, req)
		return rec.Code, rec.Body.Bytes()
	}
	// audit records without their timestamps and random ids
	strip := func(b []byte) string {
		var out []string
		for _, l := range bytes.Split(bytes.TrimSpace(b), []byte("\n")) {
			var m map[string]any
			if json.Unmarshal(l, &m) == nil {
				delete(m, "time")
				delete(m, "Time")
				delete(m, "id") // a random number per record
				c, _ := json.Marshal(m)
				out = append(out, string(c))
			} else if len(l) > 0 {
				out = append(out, string(l))
			}
		}
		return strings.Join(out, "\n")
	}
	for _, st := range states {
		for i1, w1 := range ws {
			for i2, w2 := range ws {
				for _, ep := range endpoints {
					for _, bd := range bodiesFor(ep) {
						if bd.class != "valid" {
							continue
						}
						for _, addr2 := range []string{"100.101.102.103:5555", "100.101.102.103:6001"} {
							sec.Evaluations++
							if i1 != i2 {
								sec.Nontrivial++
							}
							desc := fmt.Sprintf("state=%s first answer %s, then %s: POST /api/%s body=%s from %s", st.name, w1.name, w2.name, ep, bd.name, addr2)
							cur := w1
							skA := &sink{}
							dA := openCopy(dir, st.file, audit.New(skA))
							muxA := http.NewServeMux()
							if _, err := server.New(context.Background(), server.Config{DB: dA, WhoIs: func(ctx context.Context, a string) (*apitype.WhoIsResponse, error) { return cur.fn(ctx, a) }, Mux: muxA}); err != nil {
								panic(err)
							}
							post(muxA, "info", `{"Name":"a"}`, "100.101.102.103:5555")
							cur = w2
							mark := skA.buf.Len()
							codeA, bodyA := post(muxA, ep, bd.data, addr2)
							skB := &sink{}
							dB := openCopy(rdir, st.file, audit.New(skB))
							muxB := http.NewServeMux()
							if _, err := server.New(context.Background(), server.Config{DB: dB, WhoIs: w2.fn, Mux: muxB}); err != nil {
								panic(err)
							}
							codeB, bodyB := post(muxB, ep, bd.data, addr2)
							sec.Outcomes[fmt.Sprintf("second request %d", codeB)]++
							var diffs []string
							if codeA != codeB || !bytes.Equal(bodyA, bodyB) {
								diffs = append(diffs, fmt.Sprintf("status %d body %q; a fresh server under the second answer gives %d %q", codeA, report.Clip(string(bodyA), 100), codeB, report.Clip(string(bodyB), 100)))
							}
							if a, b := hx.DumpKey(dA), hx.DumpKey(dB); a != b {
								diffs = append(diffs, fmt.Sprintf("database %s; fresh server %s", a, b))
							}
							if a, b := strip(skA.buf.Bytes()[mark:]), strip(skB.buf.Bytes()); a != b {
								diffs = append(diffs, fmt.Sprintf("audit records %q; fresh server %q", report.Clip(a, 200), report.Clip(b, 200)))
							}
							if len(diffs) > 0 {
								rep.Violate(sec.Name, fmt.Sprintf("http/stale-identity: %s then %s", w1.name, w2.name), desc+": "+strings.Join(diffs, "; "), map[string]any{"desc": desc})
							}
						}
					}
				}
			}
		}
	}
	sec.States, sec.Transitions = int64(len(states)*len(ws)*len(ws)), sec.Evaluations
	sec.Samples = append(sec.Samples, "state=a1 first answer user-full, then user-no-grant: POST /api/get body=valid-a from 100.101.102.103:6001")
}

// sourceAddress: the identity is what the tailnet says about the connection's source address, and
// nothing a request carries can name another address. A WhoIs that answers per address (a privileged
// node P, an ordinary peer Q without grants, loopback unknown to the tailnet) serves requests from Q
// and from loopback that carry headers naming P.
func sourceAddress(rep *report.Report, states []dbState) {
	sec := rep.Add(&report.Section{Name: "identity-is-the-source-address", Engine: "enum", Exhaustive: true, Extra: map[string]int64{}, Outcomes: map[string]int64{},
		Rule: "database state(3) × source {a tailnet peer without grants, 127.0.0.1, ::1} × address-naming header {X-Forwarded-For: P / P, Q / Q, P; X-Real-Ip; Forwarded: for=P; X-Forwarded-Host; Tailscale-User-Login; True-Client-Ip; X-Client-Ip} × endpoint(7) × its well-formed bodies, against a WhoIs that answers per address (P privileged): status, body, database and audit records must equal those of the same request without the header, and WhoIs must only ever be asked about the connection's own address; non-trivial = all"})
	const P = "100.64.0.1"
	dir := hx.Scratch("c08sa-")
	defer os.RemoveAll(dir)
	rdir := hx.Scratch("c08sar-")
	defer os.RemoveAll(rdir)
	var asked []string
	whois := func(ctx context.Context, addr string) (*apitype.WhoIsResponse, error) {
		asked = append(asked, addr)
		switch {
		case strings.HasPrefix(addr, P+":") || addr == P:
			return &apitype.WhoIsResponse{Node: &tailcfg.Node{Name: "admin.example.ts.net"}, UserProfile: &tailcfg.UserProfile{ID: 1, LoginName: "admin@example.com"}, CapMap: tailcfg.PeerCapMap{server.ACLCap: raw(full)}}, nil
		case strings.HasPrefix(addr, "100.101.102.103"):
			return &apitype.WhoIsResponse{Node: &tailcfg.Node{Name: "peer.example.ts.net"}, UserProfile: &tailcfg.UserProfile{ID: 7, LoginName: "alice@example.com"}, CapMap: tailcfg.PeerCapMap{}}, nil
		}
		return nil, errors.New("no such peer")
	}
	strip := func(b []byte) string {
		var out []string
		for _, l := range bytes.Split(bytes.TrimSpace(b), []byte("\n")) {
			var m map[string]any
			if json.Unmarshal(l, &m) == nil {
				delete(m, "time")
				delete(m, "id")
				c, _ := json.Marshal(m)
				out = append(out, string(c))
			} else if len(l) > 0 {
				out = append(out, string(l))
			}
		}
		return strings.Join(out, "\n")
	}
	type hdr struct{ k, v string }
	for _, st := range states {
		for _, src := range []string{"100.101.102.103:5555", "127.0.0.1:4000", "[::1]:4000"} {
			host := strings.TrimSuffix(strings.TrimSuffix(src, ":5555"), ":4000")
			hdrs := []hdr{{"X-Forwarded-For", P}, {"X-Forwarded-For", P + ", " + strings.Trim(host, "[]")}, {"X-Forwarded-For", strings.Trim(host, "[]") + ", " + P}, {"X-Real-Ip", P}, {"Forwarded", "for=" + P}, {"X-Forwarded-Host", P}, {"Tailscale-User-Login", "admin@example.com"}, {"True-Client-Ip", P}, {"X-Client-Ip", P}}
			for _, ep := range endpoints {
				for _, bd := range bodiesFor(ep) {
					if bd.class != "valid" {
						continue
					}
					do := func(scratch string, h *hdr) (int, []byte, string, string, []string) {
						sk := &sink{}
						d := openCopy(scratch, st.file, audit.New(sk))
						mux := http.NewServeMux()
						if _, err := server.New(context.Background(), server.Config{DB: d, WhoIs: whois, Mux: mux}); err != nil {
							panic(err)
						}
						asked = nil
						req := httptest.NewRequest("POST", "/api/"+ep, strings.NewReader(bd.data))
						req.RemoteAddr = src
						req.Header.Set("Content-Type", "application/json")
						req.Header.Set("Sec-X-Tailscale-No-Browsers", "setec")
						if h != nil {
							req.Header.Set(h.k, h.v)
						}
						rec := httptest.NewRecorder()
						mux.ServeHTTP(rec, req)
						return rec.Code, rec.Body.Bytes(), hx.DumpKey(d), strip(sk.buf.Bytes()), append([]string(nil), asked...)
					}
					c0, b0, s0, a0, _ := do(rdir, nil)
					for i := range hdrs {
						h := hdrs[i]
						sec.Evaluations++
						sec.Nontrivial++
						desc := fmt.Sprintf("state=%s POST /api/%s body=%s from %s with %s: %s", st.name, ep, bd.name, src, h.k, h.v)
						c1, b1, s1, a1, who := do(dir, &h)
						sec.Outcomes[fmt.Sprintf("status %d", c1)]++
						var diffs []string
						if c1 != c0 || !bytes.Equal(b1, b0) {
							diffs = append(diffs, fmt.Sprintf("status %d body %q; without the header %d %q", c1, report.Clip(string(b1), 100), c0, report.Clip(string(b0), 100)))
						}
						if s1 != s0 {
							diffs = append(diffs, fmt.Sprintf("database %s; without the header %s", s1, s0))
						}
						if a1 != a0 {
							diffs = append(diffs, fmt.Sprintf("audit records %q; without the header %q", report.Clip(a1, 200), report.Clip(a0, 200)))
						}
						for _, w := range who {
							if w != src {
								diffs = append(diffs, fmt.Sprintf("the tailnet was asked about %q; the connection comes from %q", w, src))
							}
						}
						if len(diffs) > 0 {
							rep.Violate(sec.Name, fmt.Sprintf("http/identity-from-header: %s from %s", h.k, host), desc+": "+strings.Join(diffs, "; "), map[string]any{"desc": desc})
						}
					}
				}
			}
		}
	}
	sec.States, sec.Transitions = int64(len(states)*3), sec.Evaluations
	sec.Samples = append(sec.Samples, "state=a1 POST /api/get body=valid-a from 127.0.0.1:4000 with X-Forwarded-For: 100.64.0.1")
}
