// Harness for C14: concurrent requests are linearizable against the
// sequential specification.  Small concurrent programs are enumerated
// exhaustively; every interleaving of their gates (audit sink write, database
// lock) is executed on the real db.DB (and through the real HTTP handlers) and
// the call/return history of each execution is decided by porcupine against
// the plain map model.
package c14

import (
	"bytes"
	"context"
	"encoding/json"
	"fmt"
	"net/http"
	"net/http/httptest"
	"os"
	"path/filepath"
	"strings"
	"sync"
	"sync/atomic"
	"testing"

	"github.com/anishathalye/porcupine"
	"github.com/tailscale/setec/acl"
	"github.com/tailscale/setec/audit"
	"github.com/tailscale/setec/db"
	"github.com/tailscale/setec/server"
	"github.com/tailscale/setec/types/api"
	"tailscale.com/client/tailscale/apitype"
	"tailscale.com/tailcfg"

	"verif/hx"
	"verif/model"
	"verif/report"
	"verif/sched"
)

type op struct {
	Kind  string // put activate delver delete get getver getcond info list observe
	Name  string
	Value string
	Ver   uint32
}

func (o op) String() string {
	switch o.Kind {
	case "put":
		return fmt.Sprintf("put(%s,%q)", o.Name, o.Value)
	case "activate", "delver", "getver", "getcond":
		return fmt.Sprintf("%s(%s,%d)", o.Kind, o.Name, o.Ver)
	case "list", "observe":
		return o.Kind
	}
	return fmt.Sprintf("%s(%s)", o.Kind, o.Name)
}

type result struct {
	Class model.Class
	Ver   uint32
	Value string
	Text  string // info / list / observe rendering
}

func (r result) String() string {
	return fmt.Sprintf("%v v=%d %q %s", r.Class, r.Ver, r.Value, r.Text)
}

func infoText(name string, vs []api.SecretVersion, a api.SecretVersion) string {
	return fmt.Sprintf("%s%v@%d", name, vs, a)
}

// holdHook, when set, is told about every value or list a call returned: its rendering at return and a
// function that renders the same returned object again. A response belongs to the client that
// received it; the end of every execution checks that none was rewritten afterwards.
var holdHook func(o op, was string, again func() string)

func hold(o op, was string, again func() string) {
	if holdHook != nil {
		holdHook(o, was, again)
	}
}

func valText(sv *api.SecretValue) string { return fmt.Sprintf("%d:%q", sv.Version, sv.Value) }

type heldResp struct {
	o     op
	was   string
	again func() string
}

// apply runs o on the real database.
func apply(d *db.DB, c db.Caller, o op) result {
	switch o.Kind {
	case "put":
		v, err := d.Put(c, o.Name, []byte(o.Value))
		return result{Class: hx.Classify(err), Ver: uint32(v)}
	case "activate":
		return result{Class: hx.Classify(d.Activate(c, o.Name, api.SecretVersion(o.Ver)))}
	case "delver":
		return result{Class: hx.Classify(d.DeleteVersion(c, o.Name, api.SecretVersion(o.Ver)))}
	case "delete":
		return result{Class: hx.Classify(d.Delete(c, o.Name))}
	case "get":
		sv, err := d.Get(c, o.Name)
		if err != nil {
			return result{Class: hx.Classify(err)}
		}
		hold(o, valText(sv), func() string { return valText(sv) })
		return result{Ver: uint32(sv.Version), Value: string(sv.Value)}
	case "getver":
		sv, err := d.GetVersion(c, o.Name, api.SecretVersion(o.Ver))
		if err != nil {
			return result{Class: hx.Classify(err)}
		}
		hold(o, valText(sv), func() string { return valText(sv) })
		return result{Ver: uint32(sv.Version), Value: string(sv.Value)}
	case "getcond":
		sv, err := d.GetConditional(c, o.Name, api.SecretVersion(o.Ver))
		if err != nil {
			return result{Class: hx.Classify(err)}
		}
		hold(o, valText(sv), func() string { return valText(sv) })
		return result{Ver: uint32(sv.Version), Value: string(sv.Value)}
	case "info":
		in, err := d.Info(c, o.Name)
		if err != nil {
			return result{Class: hx.Classify(err)}
		}
		hold(o, infoText(in.Name, in.Versions, in.ActiveVersion), func() string { return infoText(in.Name, in.Versions, in.ActiveVersion) })
		return result{Text: infoText(in.Name, in.Versions, in.ActiveVersion)}
	case "list":
		ins, err := d.List(c)
		if err != nil {
			return result{Class: hx.Classify(err)}
		}
		render := func() string {
			var sb []string
			for _, in := range ins {
				sb = append(sb, infoText(in.Name, in.Versions, in.ActiveVersion))
			}
			return strings.Join(sb, ";")
		}
		hold(o, render(), render)
		return result{Text: render()}
	}
	panic("bad op " + o.Kind)
}

// expect runs o on the model and reports whether r is an acceptable result.
func expect(k *model.KV, o op, r result) bool {
	switch o.Kind {
	case "put":
		v, acc := k.Put(o.Name, o.Value)
		if !model.In(r.Class, acc) {
			return false
		}
		return r.Class != model.OK || r.Ver == v
	case "activate":
		return model.In(r.Class, k.Activate(o.Name, o.Ver))
	case "delver":
		return model.In(r.Class, k.DeleteVersion(o.Name, o.Ver))
	case "delete":
		return model.In(r.Class, k.Delete(o.Name))
	case "get":
		v, b, c := k.Get(o.Name)
		return r.Class == c && (c != model.OK || (r.Ver == v && r.Value == b))
	case "getver":
		if o.Ver == 0 { // version 0 means "active" at the HTTP level; at the DB API it is simply absent
			b, c := k.GetVersion(o.Name, 0)
			return r.Class == c && (c != model.OK || r.Value == b)
		}
		b, c := k.GetVersion(o.Name, o.Ver)
		return r.Class == c && (c != model.OK || (r.Ver == o.Ver && r.Value == b))
	case "getcond":
		v, b, c := k.Get(o.Name)
		if c != model.OK {
			return r.Class == c
		}
		if v == o.Ver {
			return r.Class == model.NotChanged
		}
		return r.Class == model.OK && r.Ver == v && r.Value == b
	case "info":
		in, c := k.Info(o.Name)
		if c != model.OK {
			return r.Class == c
		}
		return r.Class == model.OK && r.Text == infoText(in.Name, toSV(in.Versions), api.SecretVersion(in.Active))
	case "list":
		var sb []string
		for _, in := range k.List() {
			sb = append(sb, infoText(in.Name, toSV(in.Versions), api.SecretVersion(in.Active)))
		}
		return r.Class == model.OK && r.Text == strings.Join(sb, ";")
	case "observe":
		return r.Text == k.Key()
	}
	return false
}

func toSV(vs []uint32) []api.SecretVersion {
	out := make([]api.SecretVersion, len(vs))
	for i, v := range vs {
		out[i] = api.SecretVersion(v)
	}
	return out
}

// gateSink is the audit sink: every record write is a scheduling point.
type gateSink struct {
	buf bytes.Buffer
}

func (g *gateSink) Write(p []byte) (int, error) {
	sched.Seam("audit.write")
	return g.buf.Write(p)
}

type hist struct {
	clock atomic.Int64
	ops   []porcupine.Operation
}

var kek = hx.NewKEK()

type prestate struct {
	name string
	ops  []op
}

var prestates = []prestate{
	{"empty", nil},
	{"a1", []op{{Kind: "put", Name: "a", Value: "p"}}},
	{"a12", []op{{Kind: "put", Name: "a", Value: "p"}, {Kind: "put", Name: "a", Value: "q"}}},
}

// scenario builds the harness for the given thread programs.
func scenario(pre prestate, progs [][]op, viaHTTP bool) func() *sched.Harness {
	return func() *sched.Harness {
		var d *db.DB
		var dir string
		var init *model.KV
		var results [][]porcupine.Operation
		var held []heldResp
		var heldMu sync.Mutex
		var clock atomic.Int64
		var mux *http.ServeMux
		return &sched.Harness{
			Setup: func(x *sched.Exec) {
				results = make([][]porcupine.Operation, len(progs))
				clock.Store(0)
				dir = hx.Scratch("c14-")
				sink := &gateSink{}
				var err error
				d, err = db.Open(filepath.Join(dir, "db"), kek, audit.New(sink))
				if err != nil {
					panic(err)
				}
				for _, o := range pre.ops {
					if r := apply(d, hx.Super(), o); r.Class != model.OK {
						panic("prestate: " + r.String())
					}
				}
				init = hx.ToModel(d)
				held = nil
				holdHook = func(o op, was string, again func() string) {
					heldMu.Lock()
					held = append(held, heldResp{o, was, again})
					heldMu.Unlock()
				}
				if viaHTTP {
					mux = http.NewServeMux()
					if _, err := server.New(context.Background(), server.Config{DB: d, WhoIs: whoIsAll, Mux: mux}); err != nil {
						panic(err)
					}
				}
				for ti, prog := range progs {
					ti, prog := ti, prog
					x.Go(fmt.Sprintf("c%d", ti), func() {
						defer x.ReportPanic()
						for _, o := range prog {
							call := clock.Add(1)
							var r result
							if viaHTTP {
								r = applyHTTP(mux, o)
							} else {
								r = apply(d, hx.Super(), o)
							}
							ret := clock.Add(1)
							results[ti] = append(results[ti], porcupine.Operation{ClientId: ti, Input: o, Call: call, Output: r, Return: ret})
						}
					})
				}
			},
			Teardown: func(x *sched.Exec) {},
			Final: func(x *sched.Exec) error {
				defer os.RemoveAll(dir)
				holdHook = nil
				for _, h := range held {
					if now := h.again(); now != h.was {
						return fmt.Errorf("response rewritten after it was returned: %v returned %s; read again at the end of the execution the same response says %s", h.o, h.was, now)
					}
				}
				var ops []porcupine.Operation
				var sum []string
				for _, rs := range results {
					ops = append(ops, rs...)
					for _, r := range rs {
						sum = append(sum, fmt.Sprintf("%v=%v", r.Input, r.Output))
					}
				}
				call := clock.Add(1)
				ops = append(ops, porcupine.Operation{ClientId: len(progs), Input: op{Kind: "observe"}, Call: call, Output: result{Text: hx.DumpKey(d)}, Return: clock.Add(1)})
				x.Outcome = strings.Join(sum, " ") + " => " + hx.DumpKey(d)
				m := porcupine.Model{
					Init: func() interface{} { return init.Clone() },
					Step: func(state, input, output interface{}) (bool, interface{}) {
						k := state.(*model.KV).Clone()
						ok := expect(k, input.(op), output.(result))
						return ok, k
					},
					Equal: func(a, b interface{}) bool { return a.(*model.KV).Key() == b.(*model.KV).Key() },
				}
				if !porcupine.CheckOperations(m, ops) {
					return fmt.Errorf("history not linearizable: %s", x.Outcome)
				}
				return nil
			},
		}
	}
}

func whoIsAll(ctx context.Context, addr string) (*apitype.WhoIsResponse, error) {
	rule, _ := json.Marshal(acl.Rule{Action: hx.AllActions, Secret: []acl.Secret{"*"}})
	return &apitype.WhoIsResponse{
		Node:        &tailcfg.Node{Name: "n.example.ts.net"},
		UserProfile: &tailcfg.UserProfile{ID: 1, LoginName: "u@example.com"},
		CapMap:      tailcfg.PeerCapMap{server.ACLCap: []tailcfg.RawMessage{tailcfg.RawMessage(rule)}},
	}, nil
}

func applyHTTP(mux *http.ServeMux, o op) result {
	var path string
	var body any
	switch o.Kind {
	case "put":
		path, body = "/api/put", api.PutRequest{Name: o.Name, Value: []byte(o.Value)}
	case "activate":
		path, body = "/api/activate", api.ActivateRequest{Name: o.Name, Version: api.SecretVersion(o.Ver)}
	case "delver":
		path, body = "/api/delete-version", api.DeleteVersionRequest{Name: o.Name, Version: api.SecretVersion(o.Ver)}
	case "delete":
		path, body = "/api/delete", api.DeleteRequest{Name: o.Name}
	case "get":
		path, body = "/api/get", api.GetRequest{Name: o.Name}
	case "getver":
		path, body = "/api/get", api.GetRequest{Name: o.Name, Version: api.SecretVersion(o.Ver)}
	case "getcond":
		path, body = "/api/get", api.GetRequest{Name: o.Name, Version: api.SecretVersion(o.Ver), UpdateIfChanged: true}
	case "info":
		path, body = "/api/info", api.InfoRequest{Name: o.Name}
	case "list":
		path, body = "/api/list", api.ListRequest{}
	}
	bs, _ := json.Marshal(body)
	req := httptest.NewRequest("POST", path, bytes.NewReader(bs))
	req.RemoteAddr = "100.64.0.9:1234"
	req.Header.Set("Content-Type", "application/json")
	req.Header.Set("Sec-X-Tailscale-No-Browsers", "setec")
	rec := httptest.NewRecorder()
	// the moments at which the handler hands its reply to the transport are scheduling points: whatever
	// another request does in between must not show up in this reply
	mux.ServeHTTP(&seamWriter{rec}, req)
	switch rec.Code {
	case 200:
	case 404:
		return result{Class: model.NotFound}
	case 403:
		return result{Class: model.Denied}
	case 304:
		return result{Class: model.NotChanged}
	default:
		return result{Class: model.OtherErr}
	}
	switch o.Kind {
	case "put":
		var v api.SecretVersion
		json.Unmarshal(rec.Body.Bytes(), &v)
		return result{Ver: uint32(v)}
	case "get", "getver", "getcond":
		var sv api.SecretValue
		json.Unmarshal(rec.Body.Bytes(), &sv)
		return result{Ver: uint32(sv.Version), Value: string(sv.Value)}
	case "info":
		var in api.SecretInfo
		json.Unmarshal(rec.Body.Bytes(), &in)
		return result{Text: infoText(in.Name, in.Versions, in.ActiveVersion)}
	case "list":
		var ins []*api.SecretInfo
		json.Unmarshal(rec.Body.Bytes(), &ins)
		var sb []string
		for _, in := range ins {
			sb = append(sb, infoText(in.Name, in.Versions, in.ActiveVersion))
		}
		return result{Text: strings.Join(sb, ";")}
	}
	return result{}
}

type seamWriter struct{ rec *httptest.ResponseRecorder }

func (w *seamWriter) Header() http.Header { return w.rec.Header() }
func (w *seamWriter) WriteHeader(code int) {
	sched.Seam("http.writeheader")
	w.rec.WriteHeader(code)
}
func (w *seamWriter) Write(b []byte) (int, error) {
	sched.Seam("http.write")
	return w.rec.Write(b)
}

var alphabet = []op{
	{Kind: "put", Name: "a", Value: "x"},
	{Kind: "put", Name: "a", Value: "y"},
	{Kind: "put", Name: "a", Value: ""},
	{Kind: "activate", Name: "a", Ver: 2},
	{Kind: "delver", Name: "a", Ver: 2},
	{Kind: "delver", Name: "a", Ver: 1},
	{Kind: "delete", Name: "a"},
	{Kind: "get", Name: "a"},
	{Kind: "getver", Name: "a", Ver: 2},
	{Kind: "getcond", Name: "a", Ver: 1},
	{Kind: "getcond", Name: "a", Ver: 2},
	{Kind: "info", Name: "a"},
	{Kind: "list"},
	{Kind: "put", Name: "b", Value: "z"},
}

func progName(pre prestate, progs [][]op, http bool) string {
	var parts []string
	for _, p := range progs {
		var s []string
		for _, o := range p {
			s = append(s, o.String())
		}
		parts = append(parts, strings.Join(s, ","))
	}
	n := pre.name + ": " + strings.Join(parts, " || ")
	if http {
		n = "http " + n
	}
	return n
}

func isRead(o op) bool {
	switch o.Kind {
	case "get", "getver", "getcond", "info", "list":
		return true
	}
	return false
}

func TestCheck(t *testing.T) {
	env := report.FromEnv()
	rep := env.New("C14")
	defer rep.Guard(env)
	rep.Assumptions = []string{
		"scheduling points are the database mutex acquire and the audit sink write; file-system calls inside save() run inside the critical section and are not separate gates here (C04/C17 gate them)",
		"absence of data races is not decided by this check (a cooperative scheduler hides them); see DESIGN.md §2.7",
	}
	// all pairs of 1-op programs
	var pairs1, pairs2, triples, httpPairs []hx.Scenario
	for _, pre := range prestates {
		for i, a := range alphabet {
			for j := i; j < len(alphabet); j++ {
				b := alphabet[j]
				if isRead(a) && isRead(b) {
					continue // two reads commute trivially
				}
				progs := [][]op{{a}, {b}}
				pairs1 = append(pairs1, hx.Scenario{Name: progName(pre, progs, false), Make: scenario(pre, progs, false)})
				httpPairs = append(httpPairs, hx.Scenario{Name: progName(pre, progs, true), Make: scenario(pre, progs, true)})
			}
		}
	}
	// 2-op × 1-op and 2-op × 2-op programs
	muts := []op{alphabet[0], alphabet[1], alphabet[3], alphabet[4], alphabet[5], alphabet[6]}
	for _, pre := range prestates {
		for _, a1 := range muts {
			for _, a2 := range muts {
				for _, b1 := range alphabet {
					progs := [][]op{{a1, a2}, {b1}}
					pairs2 = append(pairs2, hx.Scenario{Name: progName(pre, progs, false), Make: scenario(pre, progs, false)})
				}
			}
		}
	}
	// a client that changes something and then reads, against another client's read: what the reader of
	// the first client sees must account for its own completed change (state that reads keep in memory
	// must not outlive the change)
	var pairsMR []hx.Scenario
	readers := []op{{Kind: "get", Name: "a"}, {Kind: "getcond", Name: "a", Ver: 1}, {Kind: "getcond", Name: "a", Ver: 2}}
	for _, pre := range prestates {
		for _, a1 := range []op{alphabet[0], alphabet[3], alphabet[5], alphabet[6]} {
			for _, a2 := range readers {
				for _, b1 := range readers {
					progs := [][]op{{a1, a2}, {b1}}
					pairsMR = append(pairsMR, hx.Scenario{Name: progName(pre, progs, false), Make: scenario(pre, progs, false)})
				}
			}
		}
	}
	cur := [][]op{
		{{Kind: "put", Name: "a", Value: "x"}, {Kind: "activate", Name: "a", Ver: 2}},
		{{Kind: "put", Name: "a", Value: "y"}, {Kind: "delver", Name: "a", Ver: 1}},
		{{Kind: "get", Name: "a"}, {Kind: "getcond", Name: "a", Ver: 1}},
		{{Kind: "activate", Name: "a", Ver: 2}, {Kind: "delver", Name: "a", Ver: 1}},
		{{Kind: "delete", Name: "a"}, {Kind: "put", Name: "a", Value: "x"}},
		{{Kind: "list"}, {Kind: "info", Name: "a"}},
		{{Kind: "put", Name: "b", Value: "z"}, {Kind: "list"}},
		{{Kind: "getver", Name: "a", Ver: 2}, {Kind: "get", Name: "a"}},
	}
	for _, pre := range prestates[1:] {
		for i := 0; i < len(cur); i++ {
			for j := i + 1; j < len(cur); j++ {
				for k := j + 1; k < len(cur); k++ {
					progs := [][]op{cur[i], cur[j], cur[k]}
					triples = append(triples, hx.Scenario{Name: progName(pre, progs, false), Make: scenario(pre, progs, false)})
				}
			}
		}
	}
	all := append(append(append(append(append([]hx.Scenario{}, pairs1...), pairs2...), triples...), httpPairs...), pairsMR...)
	if hx.ReplaySched(t, env, rep, all) {
		rep.Write(env)
		return
	}
	hx.ExploreScenarios(t, env, rep, "db-pairs-1op-all-interleavings", pairs1, -1, false, nil)
	hx.ExploreScenarios(t, env, rep, "http-pairs-1op-all-interleavings", httpPairs, -1, false, nil)
	hx.ExploreScenarios(t, env, rep, "db-change-then-read-vs-read-all-interleavings", pairsMR, -1, false, nil)
	if env.Thorough() {
		hx.ExploreScenarios(t, env, rep, "db-2op-vs-1op-all-interleavings", pairs2, -1, false, nil)
		hx.ExploreScenarios(t, env, rep, "db-triples-2op-bound3", triples, 3, false, nil)
		// 2-op vs 2-op programs, all interleavings
		var pairs22 []hx.Scenario
		for _, pre := range prestates {
			for _, a1 := range muts {
				for _, a2 := range muts {
					for _, b1 := range muts {
						for _, b2 := range alphabet {
							progs := [][]op{{a1, a2}, {b1, b2}}
							pairs22 = append(pairs22, hx.Scenario{Name: progName(pre, progs, false), Make: scenario(pre, progs, false)})
						}
					}
				}
			}
		}
		hx.ExploreScenarios(t, env, rep, "db-2op-vs-2op-all-interleavings", pairs22, -1, false, nil)
	} else {
		// quick: every 7th 2-op scenario and the triples at bound 1
		var sub []hx.Scenario
		for i, s := range pairs2 {
			if i%7 == 0 {
				sub = append(sub, s)
			}
		}
		hx.ExploreScenarios(t, env, rep, "db-2op-vs-1op-all-interleavings", sub, -1, false, nil)
		hx.ExploreScenarios(t, env, rep, "db-triples-2op-bound1", triples, 1, false, nil)
	}
	if err := rep.Write(env); err != nil {
		t.Fatal(err)
	}
}
