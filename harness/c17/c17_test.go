// Harness for C17: backups are consistent snapshots, change-driven,
// rate-limited and quiescent.  The real periodic backup loop runs (through the
// verif hook) against a genuine *s3.Client whose transport is an in-memory
// round tripper, under the controlled scheduler with virtual time.
package c17

import (
	"bytes"
	"context"
	"fmt"
	"io"
	"net/http"
	"net/http/httptest"
	"os"
	"path/filepath"
	"strings"
	"sync"
	"testing"
	"time"

	"github.com/aws/aws-sdk-go-v2/aws"
	"github.com/aws/aws-sdk-go-v2/credentials"
	"github.com/aws/aws-sdk-go-v2/service/s3"
	"github.com/tailscale/setec/db"
	"github.com/tailscale/setec/server"
	"tailscale.com/client/tailscale/apitype"

	"verif/hx"
	"verif/report"
	"verif/sched"
	"verif/shim/vos"
)

var kek = hx.NewKEK()

type upload struct {
	at   time.Duration
	body []byte
	ok   bool
	key  string
	end  time.Duration // when a stalled request gave up (0: answered at once or after a plain delay)
}

type s3rt struct {
	mu        sync.Mutex
	uploads   []upload
	start     time.Time
	outcomes  []string
	slowFirst time.Duration
	stallNth  int // 1-based: this request is never answered; it ends when its context does
}

func (rt *s3rt) RoundTrip(req *http.Request) (*http.Response, error) {
	sched.Seam("s3.request")
	var body []byte
	if req.Body != nil {
		body, _ = io.ReadAll(req.Body)
		req.Body.Close()
	}
	out := "ok"
	if len(rt.outcomes) > 1 {
		out = rt.outcomes[sched.Choose("s3", len(rt.outcomes))]
	}
	rt.mu.Lock()
	nth := len(rt.uploads)
	stall := rt.stallNth == nth+1
	rt.uploads = append(rt.uploads, upload{at: time.Since(rt.start), body: body, ok: out != "fail" && !stall, key: req.URL.Path})
	rt.mu.Unlock()
	if stall {
		// a bucket that accepts the request and never answers: only the request's own deadline ends it
		<-req.Context().Done()
		rt.mu.Lock()
		rt.uploads[nth].end = time.Since(rt.start)
		rt.mu.Unlock()
		sched.Seam("s3.stalled-request-gives-up")
		return nil, req.Context().Err()
	}
	if out == "slow" || (rt.slowFirst > 0 && nth == 0) {
		// a slow bucket: the request stays in flight for a while (virtual time)
		d := rt.slowFirst
		if d == 0 {
			d = 90 * time.Second
		}
		time.Sleep(d)
		sched.Seam("s3.slow-answer")
	}
	if out != "ok" {
		return &http.Response{StatusCode: 500, Status: "500 Internal Server Error", Header: http.Header{"Content-Type": {"application/xml"}}, Body: io.NopCloser(strings.NewReader(`<?xml version="1.0" encoding="UTF-8"?><Error><Code>InternalError</Code><Message>scripted failure</Message></Error>`)), Request: req}, nil
	}
	return &http.Response{StatusCode: 200, Status: "200 OK", Header: http.Header{"Etag": {`"abc"`}}, Body: io.NopCloser(strings.NewReader("")), Request: req}, nil
}

type scen struct {
	name      string
	writer    []string // put | sleep:<d>
	outcomes  []string
	cancelAt  bool          // a cancel event that may fire at any moment
	slowFirst time.Duration // the first upload stays in flight this long
	stallNth  int           // this upload (1-based) is never answered
	big       bool          // the initial database holds a large secret (so a later delete shrinks the file)
	reopen    bool          // the database is closed and opened again from its file before the backup task starts
	horizon   time.Duration
}

func (sc scen) harness() func() *sched.Harness {
	return func() *sched.Harness {
		var dir string
		var d *db.DB
		var rt *s3rt
		var cancel context.CancelFunc
		var mu sync.Mutex
		var versions [][]byte
		var writeTimes []time.Duration
		var cancelledAt time.Duration = -1
		var start time.Time
		return &sched.Harness{
			Setup: func(x *sched.Exec) {
				versions, writeTimes, cancelledAt = nil, nil, -1
				x.UseTime = true
				x.Horizon = sc.horizon
				x.MaxSteps = 400
				start = time.Now()
				dir = hx.Scratch("c17-")
				path := filepath.Join(dir, "db")
				var err error
				d, err = db.Open(path, kek, hx.Discard())
				if err != nil {
					panic(err)
				}
				d.Put(hx.Super(), "a", []byte("initial"))
				if sc.big {
					d.Put(hx.Super(), "big", bytes.Repeat([]byte("0123456789abcdef"), 256))
				}
				if sc.reopen {
					// the server is restarted on an existing database file
					d, err = db.Open(path, kek, hx.Discard())
					if err != nil {
						panic(err)
					}
				}
				b, _ := os.ReadFile(path)
				versions = append(versions, b)
				rt = &s3rt{start: start, outcomes: sc.outcomes, slowFirst: sc.slowFirst, stallNth: sc.stallNth}
				client := s3.New(s3.Options{
					Region:       "us-east-1",
					Credentials:  credentials.NewStaticCredentialsProvider("AKIDEXAMPLE", "secret", ""),
					HTTPClient:   &http.Client{Transport: rt},
					Retryer:      aws.NopRetryer{},
					UsePathStyle: true,
					BaseEndpoint: aws.String("http://s3.test"),
				})
				var ctx context.Context
				ctx, cancel = context.WithCancel(context.Background())
				vos.SetHook(&hx.GateFS{Filter: func(c *vos.Call) bool {
					return strings.HasPrefix(c.Path, dir) && (c.Op == "readopen" || c.Op == "read" || c.Op == "rename" || (c.Op == "open" && c.Mutating) || c.Op == "write" && filepath.Base(c.Path) == "db")
				}})
				x.Go("backup", func() {
					defer x.ReportPanic()
					server.VerifPeriodicBackup(ctx, d, client, "bucket")
				})
				if len(sc.writer) > 0 {
					x.Go("writer", func() {
						defer x.ReportPanic()
						n := 0
						for _, a := range sc.writer {
							if dur, ok := strings.CutPrefix(a, "sleep:"); ok {
								dd, _ := time.ParseDuration(dur)
								time.Sleep(dd)
								continue
							}
							if a == "noop" {
								// calls that succeed without changing anything (and without writing the file): a put of
								// the value already stored, an activate of the active version, a delete of an absent name
								same := "initial"
								if n > 0 {
									same = fmt.Sprintf("value-%d", n)
								}
								if _, err := d.Put(hx.Super(), "a", []byte(same)); err != nil {
									x.Fail("harness: re-put: %v", err)
								}
								d.Delete(hx.Super(), "never-existed")
								if in, err := d.Info(hx.Super(), "a"); err == nil {
									d.Activate(hx.Super(), "a", in.ActiveVersion)
								}
								continue
							}
							n++
							if a == "delbig" {
								// a write that makes the file shorter than the one uploaded before
								if err := d.Delete(hx.Super(), "big"); err != nil {
									x.Fail("harness: delete: %v", err)
								}
							} else if _, err := d.Put(hx.Super(), "a", []byte(fmt.Sprintf("value-%d", n))); err != nil {
								x.Fail("harness: put: %v", err)
							}
							b, _ := os.ReadFile(path)
							mu.Lock()
							versions = append(versions, b)
							writeTimes = append(writeTimes, time.Since(start))
							mu.Unlock()
						}
					})
				}
				if sc.cancelAt {
					x.AddEvent("cancel-server-context", nil, func() {
						cancelledAt = time.Since(start)
						cancel()
					})
				} else {
					// the server is shut down at the end of the observation window
					x.Go("shutdown", func() {
						time.Sleep(sc.horizon - 30*time.Second)
						cancelledAt = time.Since(start)
						cancel()
					})
				}
			},
			Teardown: func(x *sched.Exec) {
				cancel()
				vos.SetHook(nil)
			},
			Final: func(x *sched.Exec) error {
				defer os.RemoveAll(dir)
				if x.Stuck == "stepcap" {
					return fmt.Errorf("C17/busy-loop: the backup task kept running without ever blocking: %d scheduler steps without the clock advancing (longest uninterrupted run of one thread: %d steps) at virtual time %v; uploads so far %d", x.StepsSinceTime, x.MaxStreak, x.Now(), len(rt.uploads))
				}
				if !x.Done("backup") {
					return fmt.Errorf("C17/does-not-terminate: the backup task had not returned at %v although the server context was cancelled at %v (%s)", x.Now(), cancelledAt, x.Stuck)
				}
				ups := rt.uploads
				isVersion := func(b []byte) int {
					for i, v := range versions {
						if bytes.Equal(v, b) {
							return i
						}
					}
					return -1
				}
				var sum []string
				lastOKBegin := time.Duration(-1)
				for i, u := range ups {
					vi := isVersion(u.body)
					sum = append(sum, fmt.Sprintf("%v:v%d:%v", u.at, vi, u.ok))
					if vi < 0 {
						return fmt.Errorf("C17/torn-backup: upload %d at %v (%d bytes) is not a byte-exact copy of any complete database file that existed (%d versions)", i, u.at, len(u.body), len(versions))
					}
					if i > 0 {
						if gap := u.at - ups[i-1].at; gap < time.Minute {
							return fmt.Errorf("C17/rate: upload attempts %d and %d are only %v apart (at most one per minute)", i-1, i, gap)
						}
						// change-driven: some write since the previous successful upload began (a failed upload is retried)
						needed := !ups[i-1].ok
						for _, wt := range writeTimes {
							if lastOKBegin < 0 || wt >= lastOKBegin {
								needed = true
							}
						}
						if lastOKBegin >= 0 && !needed {
							return fmt.Errorf("C17/unneeded-upload: upload %d at %v although the database was not written since the last successful upload began at %v", i, u.at, lastOKBegin)
						}
					}
					if u.ok {
						lastOKBegin = u.at
					}
				}
				x.Outcome = strings.Join(sum, " ")
				if len(ups) == 0 && (cancelledAt < 0 || cancelledAt > 0) {
					return fmt.Errorf("C17/no-initial-backup: no upload was attempted (server ran until %v)", cancelledAt)
				}
				// freshness: if the server kept running for four minutes after the last write (the property sets no exact delay) and the
				// last two attempts' answers allowed it, the newest successful object equals the current file
				if len(writeTimes) > 0 && cancelledAt >= 0 {
					lastWrite := writeTimes[len(writeTimes)-1]
					var after []upload
					for _, u := range ups {
						if u.at >= lastWrite {
							after = append(after, u)
						}
					}
					allOK := true
					for _, u := range after {
						allOK = allOK && u.ok
					}
					if cancelledAt-lastWrite > 4*time.Minute && allOK {
						cur := versions[len(versions)-1]
						found := false
						for _, u := range ups {
							if u.ok && bytes.Equal(u.body, cur) {
								found = true
							}
						}
						if !found {
							return fmt.Errorf("C17/stale-backup: writes stopped at %v, the server ran until %v and S3 answered, but no successful upload equals the current file (uploads %v)", lastWrite, cancelledAt, sum)
						}
					}
				}
				// a failed upload is retried (when the server keeps running long enough)
				for i, u := range ups {
					if !u.ok && i == len(ups)-1 && cancelledAt-max(u.at, u.end) > 4*time.Minute {
						return fmt.Errorf("C17/failed-upload-not-retried: the upload begun at %v failed (at %v) and was never retried although the server ran until %v", u.at, max(u.at, u.end), cancelledAt)
					}
				}
				return nil
			},
		}
	}
}

func TestCheck(t *testing.T) {
	env := report.FromEnv()
	rep := env.New("C17")
	defer rep.Guard(env)
	rep.Assumptions = []string{
		"section task-started-by-server-New is free-running: real time, a loopback HTTP endpoint as S3, AWS settings from environment variables; its only time bound (90 s for an upload that takes milliseconds) is reached only when no upload comes at all",
		"S3 is an in-memory round tripper behind a genuine *s3.Client (SDK retries switched off so that the harness owns all timing); the loop runs through the verif hook with an injected client",
		"virtual time advances only when every thread is blocked; a task that never blocks is reported as a busy loop when it passes 400 scheduling points without the clock advancing",
		"'uploads happen only when the database has been written since the last successful upload' is judged leniently: a write since the last successful upload *began* justifies the next upload",
	}
	scs := []scen{
		{name: "idle database, server shut down after 5 minutes", horizon: 330 * time.Second},
		{name: "one write at 90s", writer: []string{"sleep:90s", "put"}, horizon: 400 * time.Second},
		{name: "burst of writes racing the first upload", writer: []string{"put", "put"}, horizon: 330 * time.Second},
		{name: "writes at 30s and 100s, uploads may fail", writer: []string{"sleep:30s", "put", "sleep:70s", "put"}, outcomes: []string{"ok", "fail"}, horizon: 460 * time.Second},
		{name: "cancellation at any moment, one write", writer: []string{"sleep:30s", "put"}, cancelAt: true, horizon: 300 * time.Second},
		{name: "cancellation at any moment while idle", cancelAt: true, horizon: 200 * time.Second},
		{name: "idle database opened from an existing file (server restart)", reopen: true, horizon: 200 * time.Second},
		{name: "file shrinks between uploads (large secret deleted at 30s, put at 100s)", writer: []string{"sleep:30s", "delbig", "sleep:70s", "put"}, big: true, horizon: 400 * time.Second},
		{name: "first upload in flight for 90s, then an idle database", slowFirst: 90 * time.Second, horizon: 400 * time.Second},
		{name: "calls that change nothing at 90s (re-put of the stored value, activate of the active version, delete of an absent name)", writer: []string{"sleep:90s", "noop"}, horizon: 400 * time.Second},
		{name: "one write at 30s, calls that change nothing at 100s", writer: []string{"sleep:30s", "put", "sleep:70s", "noop"}, horizon: 460 * time.Second},
		{name: "first upload never answered (ends at its own deadline), then an idle database", stallNth: 1, horizon: 640 * time.Second},
		{name: "second upload never answered, one write at 30s", writer: []string{"sleep:30s", "put"}, stallNth: 2, horizon: 720 * time.Second},
		{name: "first upload in flight for 90s, writes at 30s and 100s", writer: []string{"sleep:30s", "put", "sleep:70s", "put"}, slowFirst: 90 * time.Second, horizon: 520 * time.Second},
	}
	var list []hx.Scenario
	for _, sc := range scs {
		list = append(list, hx.Scenario{Name: sc.name, Make: sc.harness()})
	}
	if hx.ReplaySched(t, env, rep, list) {
		rep.Write(env)
		return
	}
	bound := 2
	if env.Thorough() {
		bound = 4
		list = append(list, hx.Scenario{Name: "three writes spread over four minutes, uploads may fail", Make: scen{name: "x", writer: []string{"sleep:10s", "put", "sleep:80s", "put", "sleep:100s", "put"}, outcomes: []string{"ok", "fail"}, horizon: 560 * time.Second}.harness()},
			hx.Scenario{Name: "cancellation at any moment, two writes, uploads may fail", Make: scen{name: "y", writer: []string{"put", "sleep:70s", "put"}, outcomes: []string{"ok", "fail"}, cancelAt: true, horizon: 330 * time.Second}.harness()})
	}
	hx.ExploreScenarios(t, env, rep, "backup-loop-virtual-time", list, bound, true, func(sc, msg string) string {
		first := msg
		if i := strings.Index(first, ":"); i > 0 {
			first = first[:i]
		}
		return "backup/" + sc + ": " + first
	})
	if env.Shard == 0 {
		startedByNew(t, rep)
	}
	if err := rep.Write(env); err != nil {
		t.Fatal(err)
	}
}

// startedByNew: the task as a server gets it - started by server.New when a bucket is configured, with
// the context New was given - and not through the verif hook. Free-running (real time, a loopback S3
// endpoint reached through the SDK's ambient configuration): the start-up upload must arrive and be a
// byte-exact copy of the database file while New's context is live. The bound is a generous real-time
// limit for a step that takes milliseconds; it is only reached when the upload never comes.
func startedByNew(t *testing.T, rep *report.Report) {
	sec := rep.Add(&report.Section{Name: "task-started-by-server-New", Engine: "enum", Exhaustive: true, Extra: map[string]int64{},
		Rule: "server.New with BackupBucket set (AWS endpoint, region and static credentials from the environment, pointing at a loopback S3) for databases {fresh, with two secrets}: the start-up upload must arrive while the context New was given is live and equal the database file byte for byte; non-trivial = all"})
	var mu sync.Mutex
	var bodies [][]byte
	got := make(chan struct{}, 16)
	ts := httptest.NewServer(http.HandlerFunc(func(w http.ResponseWriter, r *http.Request) {
		b, _ := io.ReadAll(r.Body)
		if r.Method == "PUT" {
			mu.Lock()
			bodies = append(bodies, b)
			mu.Unlock()
			w.Header().Set("Etag", `"abc"`)
			w.WriteHeader(200)
			got <- struct{}{}
			return
		}
		w.WriteHeader(200)
	}))
	defer ts.Close()
	for k, v := range map[string]string{"AWS_ENDPOINT_URL": ts.URL, "AWS_ACCESS_KEY_ID": "AKIDEXAMPLE", "AWS_SECRET_ACCESS_KEY": "secret", "AWS_REGION": "us-east-1", "AWS_EC2_METADATA_DISABLED": "true", "AWS_CONFIG_FILE": "/nonexistent", "AWS_SHARED_CREDENTIALS_FILE": "/nonexistent", "AWS_S3_USE_PATH_STYLE": "true"} {
		t.Setenv(k, v)
	}
	for _, withSecrets := range []bool{false, true} {
		sec.Evaluations++
		sec.Nontrivial++
		desc := fmt.Sprintf("database with secrets=%v", withSecrets)
		dir := hx.Scratch("c17new-")
		path := filepath.Join(dir, "db")
		d, err := db.Open(path, kek, hx.Discard())
		if err != nil {
			panic(err)
		}
		if withSecrets {
			d.Put(hx.Super(), "a", []byte("one"))
			d.Put(hx.Super(), "b", []byte("two"))
		}
		want, _ := os.ReadFile(path)
		mu.Lock()
		bodies = nil
		mu.Unlock()
		ctx, cancel := context.WithCancel(context.Background())
		_, err = server.New(ctx, server.Config{DB: d, WhoIs: func(context.Context, string) (*apitype.WhoIsResponse, error) { return nil, fmt.Errorf("unused") }, Mux: http.NewServeMux(), BackupBucket: "bucket", BackupBucketRegion: "us-east-1"})
		if err != nil {
			rep.Violate(sec.Name, "backup/new-fails: "+desc, desc+": server.New with a backup bucket failed: "+err.Error(), nil)
			cancel()
			os.RemoveAll(dir)
			continue
		}
		select {
		case <-got:
			mu.Lock()
			b := bodies[0]
			mu.Unlock()
			if !bytes.Equal(b, want) {
				rep.Violate(sec.Name, "backup/start-up-upload-differs: "+desc, fmt.Sprintf("%s: the start-up upload (%d bytes) is not the database file (%d bytes)", desc, len(b), len(want)), nil)
			}
		case <-time.After(90 * time.Second):
			rep.Violate(sec.Name, "backup/no-start-up-upload-from-New: "+desc, desc+": server.New returned, its context is live, and no upload reached the bucket within 90 s (real time): the task New starts is not backing up", nil)
			cancel()
			os.RemoveAll(dir)
			sec.Exhaustive = false
			sec.States, sec.Transitions = sec.Evaluations, sec.Evaluations
			return
		}
		cancel()
		time.Sleep(50 * time.Millisecond)
		os.RemoveAll(dir)
	}
	sec.States, sec.Transitions = sec.Evaluations, sec.Evaluations
	sec.Samples = append(sec.Samples, "fresh database: PUT /bucket/<date>/db-<time>.json with the database file as body")
}
