// Harness for C20: struct-tag plumbing delivers each named secret to its field
// unaltered.  Struct shapes are generated at run time with reflect.StructOf.
package c20

import (
	"bytes"
	"context"
	"encoding/base64"
	"encoding/json"
	"errors"
	"fmt"
	"path"
	"reflect"
	"sort"
	"strings"
	"sync"
	"testing"
	"time"

	"github.com/tailscale/setec/client/setec"
	"github.com/tailscale/setec/types/api"

	"verif/report"
)

// Bin has a pointer-receiver UnmarshalBinary.
type Bin struct {
	Got   []byte
	Calls int
}

func (b *Bin) UnmarshalBinary(data []byte) error {
	b.Calls++
	if string(data) == "invalid" {
		return errors.New("bin: invalid")
	}
	b.Got = append([]byte(nil), data...)
	return nil
}

type JS struct {
	X string `json:"x"`
	N int    `json:"n"`
}

type Emb struct {
	E string `setec:"emb"`
}

type Plain struct{ Z int }

type kind struct {
	name      string
	typ       reflect.Type
	tag       string // "", or ",json" suffix marker; "-" = untagged
	supported bool
	decoder   bool // has a decoder that can fail
	embedded  bool
}

var kinds = []kind{
	{name: "bytes", typ: reflect.TypeOf([]byte(nil)), supported: true},
	{name: "string", typ: reflect.TypeOf(""), supported: true},
	{name: "secret", typ: reflect.TypeOf(setec.Secret(nil)), supported: true},
	{name: "bin", typ: reflect.TypeOf(Bin{}), supported: true, decoder: true},
	{name: "binptr", typ: reflect.TypeOf(&Bin{}), supported: true, decoder: true},
	{name: "jsonstruct", typ: reflect.TypeOf(JS{}), tag: ",json", supported: true, decoder: true},
	{name: "jsonint", typ: reflect.TypeOf(0), tag: ",json", supported: true, decoder: true},
	{name: "jsonstring", typ: reflect.TypeOf(""), tag: ",json", supported: true, decoder: true},
	{name: "jsonbytes", typ: reflect.TypeOf([]byte(nil)), tag: ",json", supported: true, decoder: true},
	{name: "untagged-string", typ: reflect.TypeOf(""), tag: "-", supported: true},
	{name: "untagged-int", typ: reflect.TypeOf(0), tag: "-", supported: true},
	{name: "embedded", typ: reflect.TypeOf(Emb{}), tag: "-", supported: true, embedded: true},
	{name: "int", typ: reflect.TypeOf(0)},
	{name: "float64", typ: reflect.TypeOf(0.0)},
	{name: "chan", typ: reflect.TypeOf(make(chan int))},
	{name: "plainstruct", typ: reflect.TypeOf(Plain{})},
}

var tagNames = []string{"d", "a", "b/c", "aa"} // deliberately not in sorted order

type svc struct {
	mu   sync.Mutex
	vals map[string][]byte
	reqs []string
}

func (s *svc) Get(ctx context.Context, name string) (*api.SecretValue, error) {
	s.mu.Lock()
	defer s.mu.Unlock()
	s.reqs = append(s.reqs, name)
	v, ok := s.vals[name]
	if !ok {
		return nil, api.ErrNotFound
	}
	return &api.SecretValue{Value: append([]byte(nil), v...), Version: 1}, nil
}

func (s *svc) GetIfChanged(ctx context.Context, name string, old api.SecretVersion) (*api.SecretValue, error) {
	if old == 1 {
		return nil, api.ErrValueNotChanged
	}
	return s.Get(ctx, name)
}

// valueFor returns the bytes served for a field of kind k in the given mode.
func valueFor(k kind, mode string, salt int) []byte {
	switch mode {
	case "empty":
		return []byte{}
	case "invalid":
		if k.decoder {
			if strings.HasPrefix(k.name, "bin") {
				return []byte("invalid")
			}
			return []byte("{not json")
		}
	case "trailing":
		// a well-formed value followed by further data is not a JSON document
		if strings.HasPrefix(k.name, "json") {
			v := valueFor(k, "ordinary", salt)
			if salt%2 == 0 {
				return append(append(v, ' '), valueFor(k, "ordinary", salt+1)...)
			}
			return append(v, []byte("x")...)
		}
	}
	switch k.name {
	case "jsonstruct":
		return []byte(fmt.Sprintf(`{"x":"val%d","n":%d}`, salt, salt))
	case "jsonint":
		return []byte(fmt.Sprint(40 + salt))
	case "jsonstring":
		return []byte(fmt.Sprintf(`"text \"%d\"\n"`, salt))
	case "jsonbytes":
		return []byte(`"` + base64.StdEncoding.EncodeToString([]byte(fmt.Sprintf("raw-%d-\x00", salt))) + `"`)
	}
	return []byte(fmt.Sprintf("value-%d-\x00\xff", salt))
}

type shape struct {
	kinds  []int
	names  []string // tag name per field ("" = untagged/embedded)
	prefix string
	mode   string
	bad    int // index of the field served an invalid value (mode invalid), else -1
}

func (s shape) String() string {
	var f []string
	for i, k := range s.kinds {
		f = append(f, kinds[k].name+":"+s.names[i])
	}
	return fmt.Sprintf("{%s} prefix=%q mode=%s bad=%d", strings.Join(f, ", "), s.prefix, s.mode, s.bad)
}

func build(s shape) (reflect.Value, []string, bool) {
	var fields []reflect.StructField
	allSupported := true
	anyTagged := false
	var wantNames []string
	for i, ki := range s.kinds {
		k := kinds[ki]
		f := reflect.StructField{Name: fmt.Sprintf("F%d", i), Type: k.typ}
		switch {
		case k.embedded:
			f.Name = "Emb"
			f.Anonymous = true
			anyTagged = true
			wantNames = append(wantNames, path.Join(s.prefix, "emb"))
		case k.tag == "-":
		default:
			f.Tag = reflect.StructTag(fmt.Sprintf(`setec:"%s%s"`, s.names[i], k.tag))
			anyTagged = true
			if !k.supported {
				allSupported = false
			}
			wantNames = append(wantNames, path.Join(s.prefix, s.names[i]))
		}
		fields = append(fields, f)
	}
	t := reflect.StructOf(fields)
	return reflect.New(t), wantNames, allSupported && anyTagged
}

func TestCheck(t *testing.T) {
	env := report.FromEnv()
	rep := env.New("C20")
	defer rep.Guard(env)
	rep.Assumptions = []string{
		"a typed nil struct pointer is not in the statement and is not in the alphabet",
		"struct shapes: up to 2 (quick) / 4 (thorough) fields from 14 field kinds, with distinct or duplicate tag names, three prefixes, and ordinary / empty / one-field-invalid / one-field-with-trailing-data served values",
	}
	maxFields := 2
	if env.Thorough() {
		maxFields = 4
	}
	sec := rep.Add(&report.Section{Name: fmt.Sprintf("struct-shapes-up-to-%d-fields", maxFields), Engine: "enum", Exhaustive: true, Extra: map[string]int64{},
		Rule: "every struct shape built with reflect.StructOf × prefix × value mode, through NewStore(Structs) and through ParseFields+Apply on a lookup-enabled store; non-trivial = shapes that must be accepted and populated"})
	var shapes []shape
	var rec func(cur []int)
	rec = func(cur []int) {
		if len(cur) > 0 {
			nEmb := 0
			for _, k := range cur {
				if kinds[k].embedded {
					nEmb++
				}
			}
			if nEmb <= 1 {
				for _, prefix := range []string{"", "p", "p/q"} {
					names := make([]string, len(cur))
					for i := range cur {
						names[i] = tagNames[i]
					}
					shapes = append(shapes, shape{kinds: append([]int{}, cur...), names: names, prefix: prefix, mode: "ordinary", bad: -1})
					if prefix == "p" {
						shapes = append(shapes, shape{kinds: append([]int{}, cur...), names: names, prefix: prefix, mode: "empty", bad: -1})
						for j, k := range cur {
							if kinds[k].decoder {
								shapes = append(shapes, shape{kinds: append([]int{}, cur...), names: names, prefix: prefix, mode: "invalid", bad: j})
								if strings.HasPrefix(kinds[k].name, "json") {
									shapes = append(shapes, shape{kinds: append([]int{}, cur...), names: names, prefix: prefix, mode: "trailing", bad: j})
								}
							}
						}
						if len(cur) >= 2 {
							dup := make([]string, len(cur))
							for i := range dup {
								dup[i] = "a"
							}
							shapes = append(shapes, shape{kinds: append([]int{}, cur...), names: dup, prefix: prefix, mode: "ordinary", bad: -1})
						}
						// one field with an empty tag name
						for j, k := range cur {
							if kinds[k].tag != "-" {
								en := append([]string{}, names...)
								en[j] = ""
								shapes = append(shapes, shape{kinds: append([]int{}, cur...), names: en, prefix: prefix, mode: "ordinary", bad: -1})
								break
							}
						}
					}
				}
			}
		}
		if len(cur) == maxFields {
			return
		}
		for k := range kinds {
			rec(append(cur, k))
		}
	}
	rec(nil)
	for si, s := range shapes {
		if !env.Mine(int64(si)) {
			continue
		}
		if env.Expired() {
			sec.Exhaustive = false
			break
		}
		for _, via := range []string{"newstore", "apply", "secrets-then-apply"} {
			sec.Evaluations++
			if msg, kind, nontriv := runShape(s, via); msg != "" {
				rep.Violate(sec.Name, "fields/"+kind+": "+via+" "+s.String(), via+" "+s.String()+": "+msg, map[string]any{"shape": s.String(), "via": via})
			} else if nontriv {
				sec.Nontrivial++
			}
		}
	}
	sec.States, sec.Transitions = int64(len(shapes)), sec.Evaluations
	sec.Samples = append(sec.Samples, shapes[len(shapes)/3].String(), shapes[len(shapes)/2].String())

	// non-struct arguments
	ns := rep.Add(&report.Section{Name: "non-struct-arguments", Engine: "enum", Exhaustive: true, Rule: "ParseFields and NewStore(Structs) with a non-pointer struct, pointer to int, pointer to pointer to struct, untyped nil, a struct without tagged fields: each must be rejected with an error, without a panic and before any request"})
	if env.Shard != 0 {
		ns.Exhaustive = true
		if err := rep.Write(env); err != nil {
			t.Fatal(err)
		}
		return
	}
	x := 5
	type T struct {
		A string `setec:"a"`
	}
	tp := &T{}
	for _, c := range []struct {
		name string
		v    any
	}{{"non-pointer struct", T{}}, {"pointer to int", &x}, {"pointer to pointer", &tp}, {"untyped nil", nil}, {"no tagged fields", &Plain{}}, {"string", "s"}} {
		ns.Evaluations += 2
		ns.Nontrivial++
		func() {
			defer func() {
				if r := recover(); r != nil {
					rep.Violate(ns.Name, "fields/panic-on-bad-argument: ParseFields "+c.name, fmt.Sprintf("ParseFields(%s) panics: %v", c.name, r), map[string]any{"arg": c.name})
				}
			}()
			if _, err := setec.ParseFields(c.v, "p"); err == nil {
				rep.Violate(ns.Name, "fields/bad-argument-accepted: ParseFields "+c.name, fmt.Sprintf("ParseFields(%s) returned no error", c.name), nil)
			}
		}()
		func() {
			sv := &svc{vals: map[string][]byte{"p/a": []byte("v")}}
			defer func() {
				if r := recover(); r != nil {
					rep.Violate(ns.Name, "fields/panic-on-bad-argument: NewStore "+c.name, fmt.Sprintf("NewStore(Structs: %s) panics: %v", c.name, r), map[string]any{"arg": c.name})
				}
			}()
			st, err := setec.NewStore(context.Background(), setec.StoreConfig{Client: sv, Structs: []setec.Struct{{Value: c.v, Prefix: "p"}}, PollInterval: -1, Logf: func(string, ...any) {}})
			if err == nil {
				st.Close()
				rep.Violate(ns.Name, "fields/bad-argument-accepted: NewStore "+c.name, fmt.Sprintf("NewStore(Structs: %s) returned no error", c.name), nil)
			}
			if len(sv.reqs) != 0 {
				rep.Violate(ns.Name, "fields/bad-argument-requests: NewStore "+c.name, fmt.Sprintf("NewStore(Structs: %s) sent requests %v before rejecting", c.name, sv.reqs), nil)
			}
		}()
	}
	ns.States, ns.Transitions = 6, ns.Evaluations
	ns.Samples = append(ns.Samples, "ParseFields(nil, \"p\")", "NewStore(Structs: [{Value: &int}])")
	failingLookups(rep)
	repopulate(rep)
	taggedEmbedded(rep)
	presetBytes(rep)
	if env.Thorough() {
		olderFields(rep, 7)
	} else {
		olderFields(rep, 5)
	}
	if err := rep.Write(env); err != nil {
		t.Fatal(err)
	}
}

// runShape returns a violation message (and its kind) or "".
func runShape(s shape, via string) (msg, kind string, nontrivial bool) {
	defer func() {
		if r := recover(); r != nil {
			msg, kind = fmt.Sprintf("panic: %v", r), "panic"
		}
	}()
	pv, wantNames, accept := build(s)
	hasEmptyName := false
	for i, k := range s.kinds {
		if kinds[k].tag != "-" && !kinds[k].embedded && s.names[i] == "" {
			hasEmptyName = true
		}
	}
	if hasEmptyName {
		accept = false
	}
	sv := &svc{vals: map[string][]byte{}}
	served := map[int][]byte{}
	for i, ki := range s.kinds {
		k := kinds[ki]
		if k.tag == "-" && !k.embedded {
			continue
		}
		mode := s.mode
		if (mode == "invalid" || mode == "trailing") && i != s.bad {
			mode = "ordinary"
		}
		name := path.Join(s.prefix, s.names[i])
		salt := i
		if k.embedded {
			name = path.Join(s.prefix, "emb")
		}
		// duplicate names share one value
		if old, ok := sv.vals[name]; ok {
			served[i] = old
			continue
		}
		v := valueFor(k, mode, salt)
		if dupNames(s) {
			v = valueFor(kinds[0], mode, 0) // a value every plain kind accepts
		}
		sv.vals[name] = v
		served[i] = v
	}
	// sentinels in untagged fields
	for i, ki := range s.kinds {
		switch kinds[ki].name {
		case "untagged-string":
			pv.Elem().Field(i).SetString("sentinel")
		case "untagged-int":
			pv.Elem().Field(i).SetInt(777)
		}
	}
	ctx := context.Background()
	var st *setec.Store
	var err error
	logf := func(string, ...any) {}
	if via == "newstore" {
		st, err = setec.NewStore(ctx, setec.StoreConfig{Client: sv, Structs: []setec.Struct{{Value: pv.Interface(), Prefix: s.prefix}}, PollInterval: -1, Logf: logf})
	} else {
		var fs *setec.Fields
		fs, err = setec.ParseFields(pv.Interface(), s.prefix)
		if err == nil {
			if !accept {
				return "ParseFields accepted a shape that must be rejected up front", "accepted-bad-shape", false
			}
			got := append([]string{}, fs.Secrets()...)
			sort.Strings(got)
			w := append([]string{}, wantNames...)
			sort.Strings(w)
			if strings.Join(got, ",") != strings.Join(w, ",") {
				return fmt.Sprintf("Secrets() = %v, want %v", got, w), "names", false
			}
			cfg := setec.StoreConfig{Client: sv, AllowLookup: true, PollInterval: -1, Logf: logf}
			if via == "secrets-then-apply" {
				// the documented explicit usage: declare the names the fields need, then apply
				cfg.Secrets = fs.Secrets()
			}
			st, err = setec.NewStore(ctx, cfg)
			if err != nil {
				if via == "secrets-then-apply" && len(failingFields(s, served)) == 0 {
					return "NewStore(Secrets: f.Secrets()): " + err.Error(), "unexpected-error", true
				}
				if via != "secrets-then-apply" {
					return "NewStore(AllowLookup): " + err.Error(), "harness", false
				}
				return "", "", true
			}
			err = fs.Apply(ctx, st)
		}
	}
	if st != nil {
		defer st.Close()
	}
	if !accept {
		if err == nil {
			return "a shape that must be rejected up front was accepted", "accepted-bad-shape", false
		}
		if len(sv.reqs) != 0 {
			return fmt.Sprintf("rejected, but only after sending requests %v", sv.reqs), "rejected-late", false
		}
		return "", "", false
	}
	// which fields must fail?
	failing := map[int]bool{}
	for i, ki := range s.kinds {
		k := kinds[ki]
		v, ok := served[i]
		if !ok {
			continue
		}
		switch {
		case strings.HasPrefix(k.name, "bin") && string(v) == "invalid":
			failing[i] = true
		case strings.HasPrefix(k.name, "json") && !json.Valid(v):
			failing[i] = true
		case k.name == "jsonint" && json.Valid(v):
			var n int
			if json.Unmarshal(v, &n) != nil {
				failing[i] = true
			}
		case k.name == "jsonstruct" && json.Valid(v):
			var j JS
			if json.Unmarshal(v, &j) != nil {
				failing[i] = true
			}
		case k.name == "jsonstring" && json.Valid(v):
			var x string
			if json.Unmarshal(v, &x) != nil {
				failing[i] = true
			}
		case k.name == "jsonbytes" && json.Valid(v):
			var x []byte
			if json.Unmarshal(v, &x) != nil {
				failing[i] = true
			}
		}
	}
	if len(failing) > 0 && err == nil {
		return "a field failed to decode but no error was reported", "failure-unreported", true
	}
	if len(failing) == 0 && err != nil {
		return "unexpected error: " + err.Error(), "unexpected-error", true
	}
	if via == "newstore" && err != nil {
		return "", "", true // NewStore returns no store; nothing more to inspect
	}
	// requested names
	req := map[string]bool{}
	for _, r := range sv.reqs {
		req[r] = true
	}
	for _, n := range wantNames {
		if !req[n] {
			return fmt.Sprintf("secret %q was never requested (requests %v)", n, sv.reqs), "names", true
		}
	}
	for r := range req {
		found := false
		for _, n := range wantNames {
			found = found || n == r
		}
		if !found {
			return fmt.Sprintf("unexpected request for %q (wanted %v)", r, wantNames), "names", true
		}
	}
	// field contents
	for i, ki := range s.kinds {
		k := kinds[ki]
		f := pv.Elem().Field(i)
		v := served[i]
		if failing[i] {
			continue
		}
		switch k.name {
		case "bytes":
			if !bytes.Equal(f.Bytes(), v) {
				return fmt.Sprintf("field %d ([]byte) = %q, served %q", i, f.Bytes(), v), "field-value", true
			}
			name := path.Join(s.prefix, s.names[i])
			if len(v) > 0 {
				f.Bytes()[0] ^= 0xff
				if got := st.Secret(name).Get(); !bytes.Equal(got, v) {
					return fmt.Sprintf("changing the populated []byte field changed what the store serves for %q: %q, served %q", name, got, v), "bytes-field-aliases-store", true
				}
				f.Bytes()[0] ^= 0xff
			}
		case "string":
			if f.String() != string(v) {
				return fmt.Sprintf("field %d (string) = %q, served %q", i, f.String(), v), "field-value", true
			}
		case "secret":
			h := f.Interface().(setec.Secret)
			if h == nil || !bytes.Equal(h.Get(), v) {
				return fmt.Sprintf("field %d (Secret) does not yield the served value", i), "field-value", true
			}
		case "bin":
			b := f.Interface().(Bin)
			if !bytes.Equal(b.Got, v) || b.Calls < 1 {
				return fmt.Sprintf("field %d (BinaryUnmarshaler) got %q after %d calls, served %q", i, b.Got, b.Calls, v), "field-value", true
			}
		case "binptr":
			b := f.Interface().(*Bin)
			if b == nil || !bytes.Equal(b.Got, v) {
				return fmt.Sprintf("field %d (*BinaryUnmarshaler) not populated with %q", i, v), "field-value", true
			}
		case "jsonstruct":
			var want JS
			json.Unmarshal(v, &want)
			if f.Interface().(JS) != want {
				return fmt.Sprintf("field %d (json struct) = %+v, want %+v", i, f.Interface(), want), "field-value", true
			}
		case "jsonint":
			var want int
			json.Unmarshal(v, &want)
			if int(f.Int()) != want {
				return fmt.Sprintf("field %d (json int) = %d, want %d", i, f.Int(), want), "field-value", true
			}
		case "jsonstring":
			var want string
			json.Unmarshal(v, &want)
			if f.String() != want {
				return fmt.Sprintf("field %d (json string) = %q, want the decoded JSON string %q", i, f.String(), want), "field-value", true
			}
		case "jsonbytes":
			var want []byte
			json.Unmarshal(v, &want)
			if !bytes.Equal(f.Bytes(), want) {
				return fmt.Sprintf("field %d (json []byte) = %q, want the decoded JSON value %q", i, f.Bytes(), want), "field-value", true
			}
		case "untagged-string":
			if f.String() != "sentinel" {
				return fmt.Sprintf("untagged field %d changed to %q", i, f.String()), "untagged-touched", true
			}
		case "untagged-int":
			if f.Int() != 777 {
				return fmt.Sprintf("untagged field %d changed to %d", i, f.Int()), "untagged-touched", true
			}
		case "embedded":
			if f.Field(0).String() != string(v) {
				return fmt.Sprintf("embedded field = %q, served %q", f.Field(0).String(), v), "field-value", true
			}
		}
	}
	return "", "", true
}

// failingFields is used only to decide whether NewStore may legitimately fail.
func failingFields(s shape, served map[int][]byte) map[int]bool { return map[int]bool{} }

func dupNames(s shape) bool {
	seen := map[string]bool{}
	for i, k := range s.kinds {
		if kinds[k].tag == "-" {
			continue
		}
		if seen[s.names[i]] {
			return true
		}
		seen[s.names[i]] = true
	}
	return false
}

// lookupFailSvc serves the known names and fails the lookup of one name in a chosen way.
type lookupFailSvc struct {
	svc
	failName string
	how      string // plain, cancel, deadline
	cancel   context.CancelFunc
	slowName string        // this name is answered slowly (see Get)
	failed   chan struct{} // closed when the failing lookup has been answered
	once     sync.Once
}

func (s *lookupFailSvc) Get(ctx context.Context, name string) (*api.SecretValue, error) {
	if s.slowName != "" && name == s.slowName {
		// a slow answer that honours the request's context: it comes after the failing lookup has been
		// answered if that one is under way at the same time (or after a pause if it is not)
		select {
		case <-s.failed:
		case <-time.After(300 * time.Millisecond):
		}
		time.Sleep(30 * time.Millisecond)
		if ctx.Err() != nil {
			return nil, ctx.Err()
		}
		return s.svc.Get(ctx, name)
	}
	if name == s.failName && s.failed != nil {
		defer s.once.Do(func() { close(s.failed) })
	}
	if name == s.failName {
		s.mu.Lock()
		s.reqs = append(s.reqs, name)
		s.mu.Unlock()
		switch s.how {
		case "cancel":
			s.cancel() // the caller's context ends while this lookup is in flight
			return nil, ctx.Err()
		case "deadline":
			return nil, fmt.Errorf("lookup: %w", context.DeadlineExceeded)
		}
		return nil, errors.New("service error")
	}
	return s.svc.Get(ctx, name)
}

func (s *lookupFailSvc) GetIfChanged(ctx context.Context, name string, old api.SecretVersion) (*api.SecretValue, error) {
	if old == 1 {
		return nil, api.ErrValueNotChanged
	}
	return s.Get(ctx, name)
}

type threeFields struct {
	A string `setec:"a"`
	B []byte `setec:"b"`
	C string `setec:"c"`
}

// failingLookups: "a failure on one field neither prevents the others from being filled nor goes
// unreported", when the failure is a lookup that fails - by a plain error or
// because the caller's context ends during it - at each position of the struct.
func failingLookups(rep *report.Report) {
	sec := rep.Add(&report.Section{Name: "apply-with-a-failing-lookup", Engine: "enum", Exhaustive: true, Extra: map[string]int64{},
		Rule: "a three-field struct applied to a lookup-enabled store that already holds two of the three secrets; the third has to be looked up and that lookup fails (plain error / the caller's context is cancelled during it), at each of the three positions: Apply must report the failing field and fill the two others; then with two fields to look up, one lookup failing and the other slow and honouring its context (every ordered pair of positions), the caller's context live; non-trivial = all"})
	names := []string{"a", "b", "c"}
	for pos := 0; pos < 3; pos++ {
		for _, how := range []string{"plain", "cancel"} {
			sec.Evaluations++
			sec.Nontrivial++
			ctx, cancel := context.WithCancel(context.Background())
			sv := &lookupFailSvc{svc: svc{vals: map[string][]byte{}}, failName: "p/" + names[pos], how: how, cancel: cancel}
			var known []string
			for i, n := range names {
				if i != pos {
					sv.vals["p/"+n] = []byte("value-" + n)
					known = append(known, "p/"+n)
				}
			}
			desc := fmt.Sprintf("lookup of field %d (%s) fails (%s)", pos, names[pos], how)
			st, err := setec.NewStore(context.Background(), setec.StoreConfig{Client: sv, Secrets: known, AllowLookup: true, PollInterval: -1, Logf: func(string, ...any) {}})
			if err != nil {
				rep.Violate(sec.Name, "fields/harness: "+desc, desc+": NewStore: "+err.Error(), nil)
				cancel()
				continue
			}
			var v threeFields
			fs, err := setec.ParseFields(&v, "p")
			if err != nil {
				rep.Violate(sec.Name, "fields/harness: "+desc, desc+": ParseFields: "+err.Error(), nil)
				st.Close()
				cancel()
				continue
			}
			err = fs.Apply(ctx, st)
			got := []string{v.A, string(v.B), v.C}
			if err == nil {
				rep.Violate(sec.Name, "fields/failure-unreported: "+desc, desc+": Apply returned no error", map[string]any{"pos": pos, "how": how})
			} else if !strings.Contains(err.Error(), "p/"+names[pos]) {
				rep.Violate(sec.Name, "fields/failure-unreported: "+desc, fmt.Sprintf("%s: the error does not name the failing secret: %v", desc, err), map[string]any{"pos": pos, "how": how})
			}
			for i, n := range names {
				if i != pos && got[i] != "value-"+n {
					rep.Violate(sec.Name, "fields/others-not-filled: "+desc, fmt.Sprintf("%s: field %d (%s), whose secret the store holds, is %q after Apply (error: %v)", desc, i, n, got[i], err), map[string]any{"pos": pos, "how": how})
				}
			}
			st.Close()
			cancel()
		}
	}
	// two fields have to be looked up: one lookup fails, the other is slow and honours its context; the
	// caller's context stays live throughout
	for pos := 0; pos < 3; pos++ {
		for slow := 0; slow < 3; slow++ {
			if slow == pos {
				continue
			}
			sec.Evaluations++
			sec.Nontrivial++
			sv := &lookupFailSvc{svc: svc{vals: map[string][]byte{}}, failName: "p/" + names[pos], how: "plain", slowName: "p/" + names[slow], failed: make(chan struct{})}
			var known []string
			for i, n := range names {
				if i != pos {
					sv.vals["p/"+n] = []byte("value-" + n)
				}
				if i != pos && i != slow {
					known = append(known, "p/"+n)
				}
			}
			desc := fmt.Sprintf("lookup of field %d (%s) fails while field %d (%s) needs a slow lookup", pos, names[pos], slow, names[slow])
			st, err := setec.NewStore(context.Background(), setec.StoreConfig{Client: sv, Secrets: known, AllowLookup: true, PollInterval: -1, Logf: func(string, ...any) {}})
			if err != nil {
				rep.Violate(sec.Name, "fields/harness: "+desc, desc+": NewStore: "+err.Error(), nil)
				continue
			}
			var v threeFields
			fs, err := setec.ParseFields(&v, "p")
			if err != nil {
				rep.Violate(sec.Name, "fields/harness: "+desc, desc+": ParseFields: "+err.Error(), nil)
				st.Close()
				continue
			}
			err = fs.Apply(context.Background(), st)
			got := []string{v.A, string(v.B), v.C}
			if err == nil || !strings.Contains(err.Error(), "p/"+names[pos]) {
				rep.Violate(sec.Name, "fields/failure-unreported: "+desc, fmt.Sprintf("%s: Apply reported %v", desc, err), map[string]any{"pos": pos, "slow": slow})
			}
			for i, n := range names {
				if i != pos && got[i] != "value-"+n {
					rep.Violate(sec.Name, "fields/others-not-filled: "+desc, fmt.Sprintf("%s: field %d (%s), whose secret the service serves and whose caller's context is live, is %q after Apply (error: %v)", desc, i, n, got[i], err), map[string]any{"pos": pos, "slow": slow})
				}
			}
			st.Close()
		}
	}
	sec.States, sec.Transitions = sec.Evaluations, sec.Evaluations
}

type fourKinds struct {
	A string       `setec:"a"`
	B []byte       `setec:"b"`
	S setec.Secret `setec:"s"`
	N int          `setec:"n,json"`
	U string
}

// repopulate: a struct that has been populated once is populated again - under another prefix on the
// same store, and from another store - and every tagged field, the handle included, must then hold
// the value the second construction asks for.
func repopulate(rep *report.Report) {
	sec := rep.Add(&report.Section{Name: "populate-the-same-struct-twice", Engine: "enum", Exhaustive: true, Extra: map[string]int64{},
		Rule: "a struct with a string, a []byte, a Secret handle, a ,json int and an untagged field is populated, then populated again under {the same prefix, another prefix} × {the same store, a second store after the first was closed} × {Apply, NewStore(Structs)}: each tagged field (the handle read through Get) equals the second construction's value for prefix/name; non-trivial = all"})
	mk := func(gen int) *svc {
		sv := &svc{vals: map[string][]byte{}}
		for _, p := range []string{"p", "q"} {
			sv.vals[p+"/a"] = []byte(fmt.Sprintf("a-%s-%d", p, gen))
			sv.vals[p+"/b"] = []byte(fmt.Sprintf("b-%s-%d", p, gen))
			sv.vals[p+"/s"] = []byte(fmt.Sprintf("s-%s-%d", p, gen))
			sv.vals[p+"/n"] = []byte(fmt.Sprint(100*gen + len(p) + int(p[0])))
		}
		return sv
	}
	all := []string{"p/a", "p/b", "p/s", "p/n", "q/a", "q/b", "q/s", "q/n"}
	for _, prefix2 := range []string{"p", "q"} {
		for _, otherStore := range []bool{false, true} {
			for _, via := range []string{"apply", "newstore"} {
				sec.Evaluations++
				sec.Nontrivial++
				desc := fmt.Sprintf("second population: prefix %q, another store=%v, via %s", prefix2, otherStore, via)
				var v fourKinds
				v.U = "sentinel"
				sv1 := mk(1)
				st1, err := setec.NewStore(context.Background(), setec.StoreConfig{Client: sv1, Secrets: all, PollInterval: -1, Logf: func(string, ...any) {}})
				if err != nil {
					rep.Violate(sec.Name, "fields/harness: "+desc, err.Error(), nil)
					continue
				}
				fs1, err := setec.ParseFields(&v, "p")
				if err == nil {
					err = fs1.Apply(context.Background(), st1)
				}
				if err != nil || v.A != "a-p-1" || v.S == nil || string(v.S.Get()) != "s-p-1" {
					rep.Violate(sec.Name, "fields/first-population: "+desc, fmt.Sprintf("%s: first population: err=%v A=%q", desc, err, v.A), nil)
					st1.Close()
					continue
				}
				st2, sv2, gen := st1, sv1, 1
				if otherStore {
					st1.Close()
					sv2, gen = mk(2), 2
					st2, err = setec.NewStore(context.Background(), setec.StoreConfig{Client: sv2, Secrets: all, PollInterval: -1, Logf: func(string, ...any) {}})
					if err != nil {
						rep.Violate(sec.Name, "fields/harness: "+desc, err.Error(), nil)
						continue
					}
				}
				if via == "apply" {
					var fs2 *setec.Fields
					fs2, err = setec.ParseFields(&v, prefix2)
					if err == nil {
						err = fs2.Apply(context.Background(), st2)
					}
				} else {
					var st3 *setec.Store
					st3, err = setec.NewStore(context.Background(), setec.StoreConfig{Client: sv2, Structs: []setec.Struct{{Value: &v, Prefix: prefix2}}, PollInterval: -1, Logf: func(string, ...any) {}})
					if st3 != nil {
						defer st3.Close()
					}
				}
				if err != nil {
					rep.Violate(sec.Name, "fields/second-population-error: "+desc, desc+": "+err.Error(), nil)
				} else {
					want := func(n string) string { return string(sv2.vals[prefix2+"/"+n]) }
					var got []string
					if v.A != want("a") {
						got = append(got, fmt.Sprintf("A=%q want %q", v.A, want("a")))
					}
					if string(v.B) != want("b") {
						got = append(got, fmt.Sprintf("B=%q want %q", v.B, want("b")))
					}
					if v.S == nil || string(v.S.Get()) != want("s") {
						h := "<nil>"
						if v.S != nil {
							h = string(v.S.Get())
						}
						got = append(got, fmt.Sprintf("handle S serves %q want %q", h, want("s")))
					}
					if fmt.Sprint(v.N) != want("n") {
						got = append(got, fmt.Sprintf("N=%d want %s", v.N, want("n")))
					}
					if v.U != "sentinel" {
						got = append(got, "untagged field changed")
					}
					if len(got) > 0 {
						rep.Violate(sec.Name, "fields/stale-after-second-population: "+desc, fmt.Sprintf("%s (generation %d): %s", desc, gen, strings.Join(got, "; ")), map[string]any{"prefix2": prefix2, "other_store": otherStore, "via": via})
					}
				}
				if otherStore {
					st2.Close()
				} else {
					st1.Close()
				}
			}
		}
	}
	sec.States, sec.Transitions = sec.Evaluations, sec.Evaluations
}

// Embedded (anonymous) fields that carry the setec tag themselves.
type embJSON struct {
	JS `setec:"cfg,json"`
	A  string `setec:"a"`
}
type embBin struct {
	Bin `setec:"b"`
}
type embSecret struct {
	setec.Secret `setec:"s"`
	N            int
}
type embPlain struct {
	Plain `setec:"p"`
}
type embBoth struct {
	Emb // promoted tagged field "emb"
	JS  `setec:"cfg,json"`
}

// taggedEmbedded: "embedded structs" of the quantifier - the embedded field itself may be the tagged one.
func taggedEmbedded(rep *report.Report) {
	sec := rep.Add(&report.Section{Name: "tagged-embedded-fields", Engine: "enum", Exhaustive: true, Extra: map[string]int64{},
		Rule: "structs whose embedded (anonymous) field itself carries the tag - a ,json struct, a BinaryUnmarshaler, a Secret, an unsupported struct, and one next to an embedded struct with a promoted tagged field - × prefixes \"\", p × ParseFields+Apply and NewStore(Structs): names requested, fields populated, unsupported type rejected up front; non-trivial = all"})
	type tc struct {
		name   string
		mk     func() any
		names  []string // tag names
		check  func(v any) string
		reject bool
	}
	cases := []tc{
		{"embedded ,json struct + string", func() any { return &embJSON{} }, []string{"cfg", "a"}, func(v any) string {
			x := v.(*embJSON)
			if x.JS.X != "jx" || x.JS.N != 7 || x.A != "va" {
				return fmt.Sprintf("JS=%+v A=%q", x.JS, x.A)
			}
			return ""
		}, false},
		{"embedded BinaryUnmarshaler", func() any { return &embBin{} }, []string{"b"}, func(v any) string {
			if x := v.(*embBin); string(x.Bin.Got) != "vb" {
				return fmt.Sprintf("Bin.Got=%q", x.Bin.Got)
			}
			return ""
		}, false},
		{"embedded Secret", func() any { return &embSecret{N: 5} }, []string{"s"}, func(v any) string {
			x := v.(*embSecret)
			if x.Secret == nil || string(x.Secret.Get()) != "vs" || x.N != 5 {
				return fmt.Sprintf("Secret nil=%v N=%d", x.Secret == nil, x.N)
			}
			return ""
		}, false},
		{"embedded unsupported struct", func() any { return &embPlain{} }, []string{"p"}, nil, true},
		{"promoted field next to a tagged embedded struct", func() any { return &embBoth{} }, []string{"emb", "cfg"}, func(v any) string {
			x := v.(*embBoth)
			if x.Emb.E != "vemb" || x.JS.X != "jx" {
				return fmt.Sprintf("Emb.E=%q JS=%+v", x.Emb.E, x.JS)
			}
			return ""
		}, false},
	}
	vals := map[string]string{"cfg": `{"x":"jx","n":7}`, "a": "va", "b": "vb", "s": "vs", "p": "vp", "emb": "vemb"}
	for _, c := range cases {
		for _, prefix := range []string{"", "p"} {
			for _, via := range []string{"apply", "newstore"} {
				sec.Evaluations++
				sec.Nontrivial++
				desc := fmt.Sprintf("%s, prefix %q, via %s", c.name, prefix, via)
				sv := &svc{vals: map[string][]byte{}}
				var want []string
				for n, v := range vals {
					sv.vals[path.Join(prefix, n)] = []byte(v)
				}
				for _, n := range c.names {
					want = append(want, path.Join(prefix, n))
				}
				sort.Strings(want)
				v := c.mk()
				var err error
				func() {
					defer func() {
						if r := recover(); r != nil {
							err = fmt.Errorf("panic: %v", r)
							rep.Violate(sec.Name, "fields/panic: "+desc, fmt.Sprintf("%s: panic: %v", desc, r), nil)
						}
					}()
					if via == "apply" {
						var fs *setec.Fields
						fs, err = setec.ParseFields(v, prefix)
						if err != nil {
							return
						}
						got := append([]string{}, fs.Secrets()...)
						sort.Strings(got)
						if strings.Join(got, ",") != strings.Join(want, ",") {
							rep.Violate(sec.Name, "fields/embedded-names: "+desc, fmt.Sprintf("%s: Secrets() = %v, want %v", desc, got, want), nil)
						}
						var st *setec.Store
						st, err = setec.NewStore(context.Background(), setec.StoreConfig{Client: sv, AllowLookup: true, PollInterval: -1, Logf: func(string, ...any) {}})
						if err != nil {
							return
						}
						defer st.Close()
						err = fs.Apply(context.Background(), st)
					} else {
						var st *setec.Store
						st, err = setec.NewStore(context.Background(), setec.StoreConfig{Client: sv, Structs: []setec.Struct{{Value: v, Prefix: prefix}}, PollInterval: -1, Logf: func(string, ...any) {}})
						if st != nil {
							defer st.Close()
						}
					}
				}()
				switch {
				case c.reject:
					if err == nil {
						rep.Violate(sec.Name, "fields/embedded-unsupported-accepted: "+desc, desc+": a tagged embedded field of an unsupported type was accepted", nil)
					} else if len(sv.reqs) != 0 {
						rep.Violate(sec.Name, "fields/rejected-late: "+desc, fmt.Sprintf("%s: rejected only after requests %v", desc, sv.reqs), nil)
					}
				case err != nil:
					rep.Violate(sec.Name, "fields/embedded-error: "+desc, desc+": "+err.Error(), nil)
				default:
					if msg := c.check(v); msg != "" {
						rep.Violate(sec.Name, "fields/embedded-not-filled: "+desc, fmt.Sprintf("%s: the tagged embedded field was not populated: %s (requests %v)", desc, msg, sv.reqs), nil)
					}
				}
			}
		}
	}
	sec.States, sec.Transitions = sec.Evaluations, sec.Evaluations
}

// rotSvc serves one generation of values at a time; rotate moves every secret to a new version.
type rotSvc struct {
	mu  sync.Mutex
	gen int
}

func (s *rotSvc) val(name string) []byte {
	if name == "n" {
		return []byte(fmt.Sprint(100 + s.gen))
	}
	return []byte(fmt.Sprintf("%s-gen%d", name, s.gen))
}

func (s *rotSvc) Get(ctx context.Context, name string) (*api.SecretValue, error) {
	s.mu.Lock()
	defer s.mu.Unlock()
	return &api.SecretValue{Value: s.val(name), Version: api.SecretVersion(s.gen)}, nil
}

func (s *rotSvc) GetIfChanged(ctx context.Context, name string, old api.SecretVersion) (*api.SecretValue, error) {
	s.mu.Lock()
	defer s.mu.Unlock()
	if int(old) == s.gen {
		return nil, api.ErrValueNotChanged
	}
	return &api.SecretValue{Value: s.val(name), Version: api.SecretVersion(s.gen)}, nil
}

type sixKinds struct {
	A string       `setec:"a"`
	B []byte       `setec:"b"`
	S setec.Secret `setec:"s"`
	N int          `setec:"n,json"`
	V Bin          `setec:"v"`
	P *Bin         `setec:"w"`
	U string
}

// olderFields: one struct value, parsed more than once (by ParseFields and by NewStore(Structs)), with
// rotations of the service in between, populated through whichever Fields value the caller holds - the
// newest or an older one. Every step that populates must leave every tagged field at the current value.
func olderFields(rep *report.Report, depth int) {
	sec := rep.Add(&report.Section{Name: fmt.Sprintf("histories-of-parse-apply-rotate-depth%d", depth), Engine: "seqx", Exhaustive: true, Extra: map[string]int64{},
		Rule:  "every sequence up to the depth bound over {ParseFields (at most two Fields values are kept), Apply through the first Fields, Apply through the second Fields, rotate every secret on the service and Refresh, NewStore with the struct in Structs, replace the store by a new one on the rotated service} on one struct value with string, []byte, Secret, ,json int, Bin (value with pointer-receiver UnmarshalBinary), *Bin and an untagged field, starting with the pointer field {nil, preset}; after every Apply and every NewStore(Structs) each tagged field must hold the service's current value and the untagged field its sentinel; histories are never merged; non-trivial = histories whose last step populates after a rotation or a second parse",
		Bound: fmt.Sprintf("depth %d, 6 operations, 2 initial states", depth)})
	alpha := []string{"parse", "apply1", "apply2", "rotate", "newstore", "switch"}
	names := []string{"a", "b", "s", "n", "v", "w"}
	var rec func(hist []string, preset bool)
	type staleCase struct {
		hist []string
		msg  string
	}
	shortest := map[bool]staleCase{}
	nstale := 0
	run := func(hist []string, preset bool) (ok bool) {
		sv := &rotSvc{gen: 1}
		st, err := setec.NewStore(context.Background(), setec.StoreConfig{Client: sv, Secrets: names, PollInterval: -1, Logf: func(string, ...any) {}})
		if err != nil {
			panic(err)
		}
		stores := []*setec.Store{st}
		defer func() {
			for _, s := range stores {
				s.Close()
			}
		}()
		var v sixKinds
		v.U = "sentinel"
		if preset {
			v.P = &Bin{}
		}
		var fs []*setec.Fields
		desc := fmt.Sprintf("pointer field preset=%v, history %v", preset, hist)
		interesting := false
		for i, op := range hist {
			last := i == len(hist)-1
			populated := false
			switch op {
			case "parse":
				if len(fs) == 2 {
					return false
				}
				f, err := setec.ParseFields(&v, "")
				if err != nil {
					rep.Violate(sec.Name, "older-fields/parse-error", desc+": "+err.Error(), nil)
					return false
				}
				fs = append(fs, f)
				interesting = interesting || len(fs) == 2
			case "apply1", "apply2":
				k := int(op[5] - '1')
				if k >= len(fs) {
					return false
				}
				if err := fs[k].Apply(context.Background(), st); err != nil {
					rep.Violate(sec.Name, "older-fields/apply-error", desc+": "+err.Error(), nil)
					return false
				}
				populated = true
			case "rotate":
				sv.mu.Lock()
				sv.gen++
				sv.mu.Unlock()
				if err := st.Refresh(context.Background()); err != nil {
					panic(err)
				}
				interesting = true
			case "switch":
				// the program moves on to another store (the old one closed, the service rotated meanwhile):
				// later Apply calls go to the new store
				st.Close()
				sv.mu.Lock()
				sv.gen++
				sv.mu.Unlock()
				st2, err := setec.NewStore(context.Background(), setec.StoreConfig{Client: sv, Secrets: names, PollInterval: -1, Logf: func(string, ...any) {}})
				if err != nil {
					panic(err)
				}
				st = st2
				stores = append(stores, st2)
				interesting = true
			case "newstore":
				st3, err := setec.NewStore(context.Background(), setec.StoreConfig{Client: sv, Structs: []setec.Struct{{Value: &v}}, PollInterval: -1, Logf: func(string, ...any) {}})
				if err != nil {
					rep.Violate(sec.Name, "older-fields/newstore-error", desc+": "+err.Error(), nil)
					return false
				}
				stores = append(stores, st3)
				populated = true
				interesting = interesting || len(fs) > 0
			}
			if !last || !populated {
				continue
			}
			sec.Evaluations++
			if interesting {
				sec.Nontrivial++
			}
			want := func(n string) string { return string(sv.val(n)) }
			var got []string
			if v.A != want("a") {
				got = append(got, fmt.Sprintf("A=%q want %q", v.A, want("a")))
			}
			if string(v.B) != want("b") {
				got = append(got, fmt.Sprintf("B=%q want %q", v.B, want("b")))
			}
			if v.S == nil || string(v.S.Get()) != want("s") {
				got = append(got, "handle S does not serve "+want("s"))
			}
			if fmt.Sprint(v.N) != want("n") {
				got = append(got, fmt.Sprintf("N=%d want %s", v.N, want("n")))
			}
			if string(v.V.Got) != want("v") {
				got = append(got, fmt.Sprintf("V (Bin) holds %q want %q", v.V.Got, want("v")))
			}
			if v.P == nil || string(v.P.Got) != want("w") {
				h := "<nil>"
				if v.P != nil {
					h = string(v.P.Got)
				}
				got = append(got, fmt.Sprintf("P (*Bin) holds %q want %q", h, want("w")))
			}
			if v.U != "sentinel" {
				got = append(got, "untagged field changed")
			}
			if len(got) > 0 {
				// one report per initial state: the shortest failing history
				if old, ok := shortest[preset]; !ok || len(hist) < len(old.hist) {
					shortest[preset] = staleCase{append([]string{}, hist...), desc + ": after the last step (which reported success): " + strings.Join(got, "; ")}
				}
				nstale++
			}
		}
		return true
	}
	rec = func(hist []string, preset bool) {
		if len(hist) > 0 && !run(hist, preset) {
			return // not a valid history (nor are its extensions)
		}
		sec.States++
		if len(hist) == depth {
			return
		}
		for _, op := range alpha {
			rec(append(append([]string{}, hist...), op), preset)
		}
	}
	rec(nil, false)
	rec(nil, true)
	for preset, c := range shortest {
		rep.Violate(sec.Name, fmt.Sprintf("older-fields/stale-field: preset=%v %s", preset, strings.Join(c.hist, " ")), fmt.Sprintf("%s (%d histories leave a stale field)", c.msg, nstale), map[string]any{"history": c.hist, "preset": preset})
	}
	sec.Transitions = sec.States
	sec.Samples = append(sec.Samples, "parse newstore rotate apply1", "parse parse apply1", "parse apply1 parse rotate apply1")
}

type bytesFields struct {
	A []byte `setec:"a"`
	B []byte `setec:"b"`
	U []byte
}

// presetBytes: []byte fields that hold something before they are populated - sharing memory with each
// other, with an untagged field, or with a copy of the struct made earlier. Each tagged field must end up
// with its own secret's bytes, and nothing else the caller can see may change.
func presetBytes(rep *report.Report) {
	sec := rep.Add(&report.Section{Name: "byte-fields-preset-to-shared-memory", Engine: "enum", Exhaustive: true, Extra: map[string]int64{},
		Rule: "a struct with two tagged []byte fields and an untagged one, all three preset to slices of one 16-byte buffer (capacity larger than the secrets), populated through {ParseFields+Apply, NewStore(Structs)}; and a populated struct copied by value and populated again under another prefix: every tagged field holds its own secret, the untagged field and the earlier copy keep their bytes; non-trivial = all"})
	sv := &svc{vals: map[string][]byte{"p/a": []byte("AAAA"), "p/b": []byte("bbbb"), "q/a": []byte("QQQQ"), "q/b": []byte("qqqq")}}
	st, err := setec.NewStore(context.Background(), setec.StoreConfig{Client: sv, Secrets: []string{"p/a", "p/b", "q/a", "q/b"}, PollInterval: -1, Logf: func(string, ...any) {}})
	if err != nil {
		panic(err)
	}
	defer st.Close()
	populate := func(via string, v *bytesFields, prefix string) error {
		if via == "apply" {
			fs, err := setec.ParseFields(v, prefix)
			if err != nil {
				return err
			}
			return fs.Apply(context.Background(), st)
		}
		s2, err := setec.NewStore(context.Background(), setec.StoreConfig{Client: sv, Structs: []setec.Struct{{Value: v, Prefix: prefix}}, PollInterval: -1, Logf: func(string, ...any) {}})
		if s2 != nil {
			s2.Close()
		}
		return err
	}
	for _, via := range []string{"apply", "newstore"} {
		sec.Evaluations++
		sec.Nontrivial++
		buf := []byte("0123456789abcdef")
		v := bytesFields{A: buf[:8], B: buf[:8], U: buf[:8]}
		if err := populate(via, &v, "p"); err != nil {
			rep.Violate(sec.Name, "preset-bytes/error: "+via, via+": "+err.Error(), nil)
			continue
		}
		if string(v.A) != "AAAA" || string(v.B) != "bbbb" {
			rep.Violate(sec.Name, "preset-bytes/fields: "+via, fmt.Sprintf("via %s: fields preset to one shared buffer hold A=%q B=%q after population, want \"AAAA\" and \"bbbb\"", via, v.A, v.B), nil)
		}
		if string(v.U) != "01234567" || string(buf) != "0123456789abcdef" {
			rep.Violate(sec.Name, "preset-bytes/untagged: "+via, fmt.Sprintf("via %s: the untagged field reads %q and the caller's buffer %q after population (they were \"01234567\" / \"0123456789abcdef\")", via, v.U, buf), nil)
		}
		// a copy of the populated struct, populated again under another prefix
		sec.Evaluations++
		sec.Nontrivial++
		dev := bytesFields{}
		if err := populate(via, &dev, "p"); err != nil {
			continue
		}
		prod := dev
		if err := populate(via, &prod, "q"); err != nil {
			rep.Violate(sec.Name, "preset-bytes/error: "+via, via+": "+err.Error(), nil)
			continue
		}
		if string(dev.A) != "AAAA" || string(dev.B) != "bbbb" || string(prod.A) != "QQQQ" || string(prod.B) != "qqqq" {
			rep.Violate(sec.Name, "preset-bytes/copied-struct: "+via, fmt.Sprintf("via %s: after populating a copy under prefix q the first struct holds A=%q B=%q (want AAAA, bbbb) and the copy A=%q B=%q (want QQQQ, qqqq)", via, dev.A, dev.B, prod.A, prod.B), nil)
		}
	}
	sec.States, sec.Transitions = sec.Evaluations, sec.Evaluations
}
