// Package race is the auxiliary free-running pass for the "no data race"
// clauses of C12 and C14 (DESIGN.md §2.7).  It is sampling, not model checking:
// the harness bodies run as ordinary goroutines (shims pass-through) under the
// Go race detector.  A report is always a true positive; silence decides nothing.
package race

import (
	"bytes"
	"context"
	"encoding/json"
	"fmt"
	"net/http"
	"net/http/httptest"
	"os"
	"path/filepath"
	"runtime"
	"sync"
	"sync/atomic"
	"testing"
	"time"

	"github.com/tailscale/setec/acl"
	"github.com/tailscale/setec/audit"
	"github.com/tailscale/setec/client/setec"
	"github.com/tailscale/setec/db"
	"github.com/tailscale/setec/server"
	"github.com/tailscale/setec/types/api"
	"tailscale.com/client/tailscale/apitype"
	"tailscale.com/tailcfg"

	"verif/hx"
)

func iterations() int {
	n := 300
	if os.Getenv("VERIF_TIER") == "thorough" {
		n = 3000
	}
	return n
}

func whoIs(context.Context, string) (*apitype.WhoIsResponse, error) {
	rule, _ := json.Marshal(acl.Rule{Action: hx.AllActions, Secret: []acl.Secret{"*"}})
	return &apitype.WhoIsResponse{Node: &tailcfg.Node{Name: "n"}, UserProfile: &tailcfg.UserProfile{ID: 1, LoginName: "u@example.com"},
		CapMap: tailcfg.PeerCapMap{server.ACLCap: []tailcfg.RawMessage{tailcfg.RawMessage(rule)}}}, nil
}

// TestRaceC14: concurrent clients on the database API and the HTTP handlers, with a real audit file.
func TestRaceC14(t *testing.T) {
	dir := t.TempDir()
	kek := hx.NewKEK()
	aw, err := audit.NewFile(filepath.Join(dir, "audit.log"))
	if err != nil {
		t.Fatal(err)
	}
	defer aw.Close()
	d, err := db.Open(filepath.Join(dir, "db"), kek, aw)
	if err != nil {
		t.Fatal(err)
	}
	mux := http.NewServeMux()
	if _, err := server.New(context.Background(), server.Config{DB: d, WhoIs: whoIs, Mux: mux}); err != nil {
		t.Fatal(err)
	}
	su := hx.Super()
	post := func(path string, body any) {
		bs, _ := json.Marshal(body)
		req := httptest.NewRequest("POST", path, bytes.NewReader(bs))
		req.RemoteAddr = "100.64.0.9:1"
		req.Header.Set("Content-Type", "application/json")
		req.Header.Set("Sec-X-Tailscale-No-Browsers", "setec")
		mux.ServeHTTP(httptest.NewRecorder(), req)
	}
	// a secret with two stable versions whose active version flips while several clients get it and go on
	// using what they got (a response belongs to the client that received it)
	d.Put(su, "c", []byte("value-one"))
	d.Put(su, "c", []byte("value-two"))
	var sink atomic.Int64
	use := func(sv *api.SecretValue, err error) {
		if err != nil || sv == nil {
			return
		}
		runtime.Gosched()
		x := int64(sv.Version)
		for _, b := range sv.Value {
			x += int64(b)
		}
		sink.Add(x)
	}
	n := iterations()
	for it := 0; it < n; it++ {
		var wg sync.WaitGroup
		ops := []func(){
			func() {
				d.Activate(su, "c", api.SecretVersion(it%2+1))
				d.Activate(su, "c", api.SecretVersion((it+1)%2+1))
			},
			func() { use(d.Get(su, "c")); use(d.Get(su, "c")) },
			func() { use(d.GetConditional(su, "c", 7)); use(d.GetVersion(su, "c", 1)) },
			func() {
				post("/api/get", api.GetRequest{Name: "c"})
				post("/api/get", api.GetRequest{Name: "c", Version: 7, UpdateIfChanged: true})
			},
			func() { d.Put(su, "a", []byte(fmt.Sprint("v", it))) },
			func() { d.Get(su, "a"); d.GetConditional(su, "a", 1) },
			func() {
				d.Activate(su, "a", api.SecretVersion(it%3+1))
				d.DeleteVersion(su, "a", api.SecretVersion(it%4+1))
			},
			func() { d.List(su); d.Info(su, "a") },
			func() {
				post("/api/put", api.PutRequest{Name: "b", Value: []byte("x")})
				post("/api/get", api.GetRequest{Name: "a"})
			},
			func() { post("/api/list", api.ListRequest{}); post("/api/delete", api.DeleteRequest{Name: "b"}) },
			func() { d.WriteGen(); d.Path() },
		}
		for _, f := range ops {
			wg.Add(1)
			go func(f func()) { defer wg.Done(); f() }(f)
		}
		wg.Wait()
	}
	t.Logf("aux_race_iterations=%d", n)
}

type svc struct {
	mu  sync.Mutex
	ver map[string]int
}

func (s *svc) Get(ctx context.Context, name string) (*api.SecretValue, error) {
	s.mu.Lock()
	defer s.mu.Unlock()
	if s.ver[name] == 0 {
		s.ver[name] = 1
	}
	return &api.SecretValue{Value: []byte(fmt.Sprintf("%s#%d", name, s.ver[name])), Version: api.SecretVersion(s.ver[name])}, nil
}

func (s *svc) GetIfChanged(ctx context.Context, name string, old api.SecretVersion) (*api.SecretValue, error) {
	s.mu.Lock()
	v := s.ver[name]
	s.mu.Unlock()
	if int(old) == v {
		return nil, api.ErrValueNotChanged
	}
	return s.Get(ctx, name)
}

func (s *svc) bump(name string) {
	s.mu.Lock()
	s.ver[name]++
	s.mu.Unlock()
}

// TestRaceC12: handles, pollers, lookups, updaters and Close on one store.
func TestRaceC12(t *testing.T) {
	n := iterations() / 3
	for it := 0; it < n; it++ {
		sv := &svc{ver: map[string]int{"d": 1}}
		st, err := setec.NewStore(context.Background(), setec.StoreConfig{Client: sv, Secrets: []string{"d"}, AllowLookup: true,
			// the start-up cache holds undeclared secrets nobody has a handle for yet (they are candidates for expiry)
			Cache:        setec.NewMemCache(`{"c0":{"secret":{"Value":"YzA=","Version":1},"lastAccess":"5"},"c1":{"secret":{"Value":"YzE=","Version":1},"lastAccess":"5"}}`),
			PollInterval: time.Millisecond, ExpiryAge: time.Nanosecond, Logf: func(string, ...any) {}})
		if err != nil {
			t.Fatal(err)
		}
		h := st.Secret("d")
		u, err := setec.NewUpdater(context.Background(), st, "d", func(b []byte) (string, error) { return string(b), nil })
		if err != nil {
			t.Fatal(err)
		}
		var wg sync.WaitGroup
		run := func(f func()) { wg.Add(1); go func() { defer wg.Done(); f() }() }
		run(func() {
			for i := 0; i < 20; i++ {
				h.Get()
				u.Get()
			}
		})
		run(func() {
			for i := 0; i < 5; i++ {
				sv.bump("d")
				st.Refresh(context.Background())
			}
		})
		run(func() {
			for i := 0; i < 3; i++ {
				if s, err := st.LookupSecret(context.Background(), fmt.Sprint("u", i)); err == nil {
					s.Get()
				}
			}
		})
		run(func() { st.Secret("u0").Get(); st.Metrics() })
		run(func() {
			// handles for the cached names are taken and used while polls (and their expiry sweeps) run
			for i := 0; i < 6; i++ {
				st.Secret(fmt.Sprint("c", i%2)).Get()
			}
		})
		run(func() { time.Sleep(time.Duration(it%3) * time.Millisecond); st.Close(); h.Get() })
		wg.Wait()
		st.Close()
	}
	t.Logf("aux_race_iterations=%d", n)
}
