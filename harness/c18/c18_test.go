// Harness for C18: secret bytes round-trip unchanged end to end, including
// through the CLI.
package c18

import (
	"bytes"
	"context"
	"crypto/sha256"
	"encoding/json"
	"fmt"
	"net/http"
	"net/http/httptest"
	"os"
	"os/exec"
	"path/filepath"
	"strings"
	"sync"
	"sync/atomic"
	"testing"
	"time"
	"unicode"
	"unicode/utf8"

	"github.com/tailscale/setec/acl"
	"github.com/tailscale/setec/client/setec"
	"github.com/tailscale/setec/db"
	"github.com/tailscale/setec/server"
	"github.com/tailscale/setec/types/api"
	"tailscale.com/client/tailscale/apitype"
	"tailscale.com/tailcfg"

	"verif/hx"
	"verif/report"
)

var kek = hx.NewKEK()

func whoIs(context.Context, string) (*apitype.WhoIsResponse, error) {
	rule, _ := json.Marshal(acl.Rule{Action: hx.AllActions, Secret: []acl.Secret{"*"}})
	return &apitype.WhoIsResponse{
		Node:        &tailcfg.Node{Name: "n.example.ts.net"},
		UserProfile: &tailcfg.UserProfile{ID: 1, LoginName: "u@example.com"},
		CapMap:      tailcfg.PeerCapMap{server.ACLCap: []tailcfg.RawMessage{tailcfg.RawMessage(rule)}},
	}, nil
}

func inproc(mux *http.ServeMux) setec.Client {
	return setec.Client{Server: "http://setec.test", DoHTTP: func(r *http.Request) (*http.Response, error) {
		r.RemoteAddr = "100.64.0.7:4242"
		r.RequestURI = r.URL.RequestURI()
		rec := httptest.NewRecorder()
		mux.ServeHTTP(rec, r)
		return rec.Result(), nil
	}}
}

func stringsOver(sym []byte, n int) [][]byte {
	out := [][]byte{{}}
	prev := [][]byte{{}}
	for l := 1; l <= n; l++ {
		var cur [][]byte
		for _, p := range prev {
			for _, s := range sym {
				cur = append(cur, append(append([]byte{}, p...), s))
			}
		}
		out = append(out, cur...)
		prev = cur
	}
	return out
}

func atomsOver(atoms [][]byte, n int) [][]byte {
	out := [][]byte{{}}
	prev := [][]byte{{}}
	for l := 1; l <= n; l++ {
		var cur [][]byte
		for _, p := range prev {
			for _, a := range atoms {
				cur = append(cur, append(append([]byte{}, p...), a...))
			}
		}
		out = append(out, cur...)
		prev = cur
	}
	return out
}

func boundary() [][]byte {
	var out [][]byte
	for _, n := range []int{65535, 65536, 1 << 20} {
		z := make([]byte, n)
		f := bytes.Repeat([]byte{0xff}, n)
		c := make([]byte, n)
		for i := range c {
			c[i] = byte(i)
		}
		out = append(out, z, f, c)
	}
	return out
}

// chunk pushes values through every retrieval path.
func chunk(dir string, idx int, vals [][]byte, fail func(kind string, v []byte, msg string)) int64 {
	var evals int64
	os.RemoveAll(dir)
	os.MkdirAll(dir, 0o700)
	dbPath := filepath.Join(dir, "db")
	d, err := db.Open(dbPath, kek, hx.Discard())
	if err != nil {
		panic(err)
	}
	mux := http.NewServeMux()
	server.New(context.Background(), server.Config{DB: d, WhoIs: whoIs, Mux: mux})
	cl := inproc(mux)
	ctx := context.Background()
	names := make([]string, len(vals))
	vers := make([]api.SecretVersion, len(vals))
	type histPut struct {
		i    int
		name string
		ver  api.SecretVersion
	}
	var hist []histPut
	eq := func(kind string, i int, got []byte, err error) {
		evals++
		if err != nil {
			fail(kind, vals[i], fmt.Sprintf("%s: error %v", kind, err))
		} else if !bytes.Equal(got, vals[i]) {
			fail(kind, vals[i], fmt.Sprintf("%s: got %d bytes %q, put %d bytes %q", kind, len(got), report.Clip(string(got), 40), len(vals[i]), report.Clip(string(vals[i]), 40)))
		}
	}
	val := func(sv *api.SecretValue) []byte {
		if sv == nil {
			return nil
		}
		return sv.Value
	}
	for i, v := range vals {
		names[i] = fmt.Sprintf("rt/%d-%d", idx, i)
		// a first different version, so that the value under test is version 2 and has to be activated
		if i%2 == 1 {
			cl.Put(ctx, names[i], append([]byte("other-"), v...))
		}
		ver, err := cl.Put(ctx, names[i], v)
		if err != nil {
			fail("client-put", v, err.Error())
			continue
		}
		vers[i] = ver
		if ver != 1 {
			if err := cl.Activate(ctx, names[i], ver); err != nil {
				fail("client-activate", v, err.Error())
			}
		}
		sv, err := cl.Get(ctx, names[i])
		eq("client-get", i, val(sv), err)
		sv, err = cl.GetVersion(ctx, names[i], ver)
		eq("client-getversion", i, val(sv), err)
		sv, err = d.Get(hx.Super(), names[i])
		eq("db-get", i, val(sv), err)
		sv, err = d.GetVersion(hx.Super(), names[i], ver)
		eq("db-getversion", i, val(sv), err)
		sv, err = cl.GetIfChanged(ctx, names[i], ver+1)
		eq("client-getifchanged", i, val(sv), err)
		// the same value put onto a secret with a history: two other versions, the newer one deleted again
		// (so the number last assigned names nothing); the version the put reports must hold the bytes
		n2 := names[i] + "/after-delete"
		cl.Put(ctx, n2, append([]byte("first-"), v...))
		if v2, err := cl.Put(ctx, n2, append([]byte("second-"), v...)); err == nil {
			cl.DeleteVersion(ctx, n2, v2)
		}
		if ver2, err := cl.Put(ctx, n2, v); err != nil {
			fail("client-put-after-delete", v, err.Error())
		} else {
			sv, err = cl.GetVersion(ctx, n2, ver2)
			eq("client-getversion-after-delete", i, val(sv), err)
			hist = append(hist, histPut{i, n2, ver2})
		}
		// a secret that is read, deleted and created again under the same name: a get returns the bytes of the
		// new secret (version numbers start again at 1, so the number alone does not tell the two apart)
		n3 := names[i] + "/recreated"
		if _, err := cl.Put(ctx, n3, append([]byte("earlier-"), v...)); err == nil {
			cl.Get(ctx, n3)
			d.GetConditional(hx.Super(), n3, 9)
			if err := cl.Delete(ctx, n3); err == nil {
				if _, err := cl.Put(ctx, n3, v); err != nil {
					fail("client-put-recreated", v, err.Error())
				} else {
					sv, err = cl.Get(ctx, n3)
					eq("client-get-recreated", i, val(sv), err)
					sv, err = cl.GetIfChanged(ctx, n3, 9)
					eq("client-getifchanged-recreated", i, val(sv), err)
				}
			}
		}
	}
	// Store, cache, FileClient
	cpath := filepath.Join(dir, "cache.json")
	fc, _ := setec.NewFileCache(cpath)
	st, err := setec.NewStore(ctx, setec.StoreConfig{Client: cl, Secrets: append([]string(nil), names...), Cache: fc, PollInterval: -1, Logf: func(string, ...any) {}})
	if err != nil {
		fail("store", nil, err.Error())
	} else {
		for i := range vals {
			got := st.Secret(names[i]).Get()
			eq("store-handle", i, got, nil)
		}
		st.Close()
		raw, _ := os.ReadFile(cpath)
		var doc map[string]struct {
			Secret *struct {
				Value   []byte
				Version uint32
			} `json:"secret"`
		}
		if err := json.Unmarshal(raw, &doc); err != nil {
			fail("cache-file", nil, "cache file is not the documented JSON: "+err.Error())
		} else {
			for i := range vals {
				e, ok := doc[names[i]]
				if !ok || e.Secret == nil {
					fail("cache-file", vals[i], "secret missing from the cache file")
					continue
				}
				eq("cache-file", i, e.Secret.Value, nil)
			}
		}
		// a second store started from the cache alone
		// (bounded: a store that does not accept its own cache would otherwise retry the dead service for ever)
		ctx2, cancel2 := context.WithTimeout(ctx, 3*time.Second)
		st2, err := setec.NewStore(ctx2, setec.StoreConfig{Client: deadClient{}, Secrets: append([]string(nil), names...), Cache: fc, PollInterval: -1, Logf: func(string, ...any) {}})
		cancel2()
		if err != nil {
			fail("store-from-cache", nil, err.Error())
		} else {
			for i := range vals {
				eq("store-from-cache", i, st2.Secret(names[i]).Get(), nil)
			}
			st2.Close()
		}
		fcl, err := setec.NewFileClient(cpath)
		if err != nil {
			fail("file-client", nil, err.Error())
		} else {
			for i := range vals {
				if len(vals[i]) == 0 {
					continue
				}
				sv, err := fcl.Get(ctx, names[i])
				eq("file-client", i, val(sv), err)
			}
		}
	}
	// server restart
	d2, err := db.Open(dbPath, kek, hx.Discard())
	if err != nil {
		fail("reopen", nil, err.Error())
	} else {
		for i := range vals {
			sv, err := d2.Get(hx.Super(), names[i])
			eq("after-restart-get", i, val(sv), err)
			sv, err = d2.GetVersion(hx.Super(), names[i], vers[i])
			eq("after-restart-getversion", i, val(sv), err)
		}
		for _, h := range hist {
			sv, err := d2.GetVersion(hx.Super(), h.name, h.ver)
			eq("after-restart-getversion-after-delete", h.i, val(sv), err)
		}
	}
	return evals
}

type deadClient struct{}

func (deadClient) Get(context.Context, string) (*api.SecretValue, error) {
	return nil, fmt.Errorf("service unreachable")
}
func (deadClient) GetIfChanged(context.Context, string, api.SecretVersion) (*api.SecretValue, error) {
	return nil, fmt.Errorf("service unreachable")
}

func isSpace(b byte) bool {
	return b == ' ' || b == '\n' || b == '\t' || b == '\r' || b == '\v' || b == '\f'
}

// cliReference is the stated policy: (value sent, refused, either-of-two accepted).
func cliReference(in []byte, verbatim, trim, emptyOK bool) (vals [][]byte, refused bool) {
	// "whitespace" is Unicode white space (what Go calls unicode.IsSpace), decoded rune by rune from
	// both ends; only consulted for valid UTF-8, where decoding cannot go wrong
	i, j := 0, len(in)
	for i < j {
		r, sz := utf8.DecodeRune(in[i:j])
		if !unicode.IsSpace(r) {
			break
		}
		i += sz
	}
	for j > i {
		r, sz := utf8.DecodeLastRune(in[i:j])
		if !unicode.IsSpace(r) {
			break
		}
		j -= sz
	}
	trimmed := in[i:j]
	cands := [][]byte{in}
	if utf8.Valid(in) && len(trimmed) != len(in) {
		switch {
		case verbatim && trim:
			cands = [][]byte{in, trimmed} // the statement does not rank the two flags
		case verbatim:
		case trim:
			cands = [][]byte{trimmed}
		default:
			return nil, true
		}
	}
	var out [][]byte
	for _, c := range cands {
		if len(c) == 0 && !emptyOK {
			continue
		}
		out = append(out, c)
	}
	if len(out) == 0 {
		return nil, true
	}
	if len(out) != len(cands) {
		// one reading refuses, the other sends: accept both
		return out, false
	}
	return out, false
}

func TestCheck(t *testing.T) {
	env := report.FromEnv()
	rep := env.New("C18")
	defer rep.Guard(env)
	rep.Assumptions = []string{
		"byte strings are exhaustive over {00,0A,20,61,80,FF,22,5C} up to the length bound plus a fixed boundary family (64 KiB-1, 64 KiB, 1 MiB of zeros / 0xFF / a counter); megabyte sizes are not covered exhaustively",
		"the CLI's terminal-prompt input path needs a pty and is not driven; file and pipe sources are",
		"with both --verbatim and --trim-space the statement does not say which wins; either value is accepted",
	}
	base := hx.Scratch("c18-")
	defer os.RemoveAll(base)
	n := 3
	if env.Thorough() {
		n = 5
	}
	vals := stringsOver([]byte{0x00, 0x0a, 0x20, 0x61, 0x80, 0xff, 0x22, 0x5c}, n)
	vals = append(vals, boundary()...)
	sec := rep.Add(&report.Section{Name: fmt.Sprintf("round-trip-all-strings-len%d", n), Engine: "enum", Exhaustive: true, Extra: map[string]int64{},
		Rule: "every byte string over the 8-byte alphabet up to the length bound (plus the boundary family) is put through the real HTTP client/handler and read back by Client.Get/GetVersion/GetIfChanged, db.Get/GetVersion, a Store handle, the cache file, a Store started from the cache alone, a FileClient (non-empty values), and again after reopening the database; each value is also put onto a secret whose newest version was just deleted and read back under the version the put reports, live and after the restart, and onto a name whose earlier secret was read and deleted; non-trivial = values that are not valid UTF-8 text or are empty or carry whitespace/quotes/backslashes"})
	var mu sync.Mutex
	fail := func(kind string, v []byte, msg string) {
		mu.Lock()
		rep.Violate(sec.Name, "roundtrip/"+kind+": "+fmt.Sprintf("%x", report.Clip(string(v), 12)), fmt.Sprintf("value %x (%d bytes): %s", report.Clip(string(v), 24), len(v), msg), map[string]any{"value_hex": fmt.Sprintf("%x", report.Clip(string(v), 64)), "len": len(v)})
		mu.Unlock()
	}
	const chunkSize = 150
	var wg sync.WaitGroup
	var evals atomic.Int64
	sem := make(chan struct{}, 16)
	for c := 0; c*chunkSize < len(vals); c++ {
		lo, hi := c*chunkSize, (c+1)*chunkSize
		if hi > len(vals) {
			hi = len(vals)
		}
		wg.Add(1)
		sem <- struct{}{}
		go func(c int, part [][]byte) {
			defer wg.Done()
			defer func() { <-sem }()
			evals.Add(chunk(filepath.Join(base, fmt.Sprintf("chunk%d", c)), c, part, fail))
			os.RemoveAll(filepath.Join(base, fmt.Sprintf("chunk%d", c)))
		}(c, vals[lo:hi])
	}
	wg.Wait()
	sec.Evaluations = evals.Load()
	for _, v := range vals {
		if !utf8.Valid(v) || len(v) == 0 || bytes.ContainsAny(v, " \n\"\\\x00") {
			sec.Nontrivial++
		}
	}
	sec.States, sec.Transitions = int64(len(vals)), sec.Evaluations
	sec.Samples = append(sec.Samples, fmt.Sprintf("%x", vals[len(vals)/2-5]), fmt.Sprintf("%x", vals[77]), "1 MiB counter pattern")

	cli(t, env, rep, base)
	if err := rep.Write(env); err != nil {
		t.Fatal(err)
	}
}

func cli(t *testing.T, env *report.Env, rep *report.Report, base string) {
	n := 2
	if env.Thorough() {
		n = 4
	}
	sec := rep.Add(&report.Section{Name: fmt.Sprintf("cli-put-all-flag-combinations-len%d", n), Engine: "enum", Exhaustive: true, Extra: map[string]int64{},
		Rule: "the setec binary built from the working tree, against a loopback server: every combination of --verbatim, --trim-space, --empty-ok × source {--from-file, pipe} × every input over {20,0A,61,FF} up to the length bound and over the atoms {U+3000, U+00A0, U+2003, 20, 61, FF} up to 2 (quick) / 3 (thorough) atoms, plus binary and text values of 65535, 65537, 2^20-1, 2^20, 2^20+1 and 2^21+17 bytes through file and pipe, and values that are valid UTF-8 with surrounding whitespace for 510 … 65534 bytes and only then stop being UTF-8, under every flag combination; compared with a reference of the stated policy (value received by the server, exit status, and zero requests on refusal); non-trivial = inputs with surrounding whitespace or empty"})
	bin := filepath.Join(base, "setec")
	args := []string{"build", "-o", bin}
	if mf := os.Getenv("VERIF_MODFILE"); mf != "" {
		args = append(args, mf)
	}
	if ov := os.Getenv("VERIF_OVERLAY"); ov != "" {
		args = append(args, "-overlay", ov)
	}
	args = append(args, "github.com/tailscale/setec/cmd/setec")
	cmd := exec.Command("go1.26.8", args...)
	cmd.Dir = os.Getenv("VERIF_ROOT")
	cmd.Env = append(os.Environ(), "GOMAXPROCS=16")
	if out, err := cmd.CombinedOutput(); err != nil {
		sec.Exhaustive = false
		rep.EngineErrors = append(rep.EngineErrors, "building the setec binary failed: "+report.Clip(string(out), 400))
		return
	}
	d, err := db.Open(filepath.Join(base, "clidb"), kek, hx.Discard())
	if err != nil {
		panic(err)
	}
	mux := http.NewServeMux()
	server.New(context.Background(), server.Config{DB: d, WhoIs: whoIs, Mux: mux})
	var reqs atomic.Int64
	srv := httptest.NewServer(http.HandlerFunc(func(w http.ResponseWriter, r *http.Request) {
		reqs.Add(1)
		mux.ServeHTTP(w, r)
	}))
	defer srv.Close()
	inputs := stringsOver([]byte{0x20, 0x0a, 0x61, 0xff}, n)
	// multi-byte white space (U+3000, U+00A0, U+2003) next to ASCII white space, text and a binary byte
	for _, in := range atomsOver([][]byte{[]byte("\u3000"), []byte("\u00a0"), []byte("\u2003"), {0x20}, {0x61}, {0xff}}, n/2+1) {
		dup := false
		for _, x := range inputs {
			dup = dup || bytes.Equal(x, in)
		}
		if !dup {
			inputs = append(inputs, in)
		}
	}
	type job struct {
		in                []byte
		verb, trim, empty bool
		fromFile          bool
		id                int
	}
	var jobs []job
	id := 0
	for _, in := range inputs {
		for m := 0; m < 8; m++ {
			for _, ff := range []bool{true, false} {
				jobs = append(jobs, job{in: in, verb: m&1 != 0, trim: m&2 != 0, empty: m&4 != 0, fromFile: ff, id: id})
				id++
			}
		}
	}
	// large values through both input sources (sizes around 64 KiB and 1 MiB, binary and text)
	for _, n := range []int{65535, 65537, 1<<20 - 1, 1 << 20, 1<<20 + 1, 2<<20 + 17} {
		bin := bytes.Repeat([]byte{0xff, 0x00, 0x0a}, n/3+1)[:n]
		txt := bytes.Repeat([]byte("abcdefg"), n/7+1)[:n]
		for _, in := range [][]byte{bin, txt} {
			for _, ff := range []bool{true, false} {
				jobs = append(jobs, job{in: in, fromFile: ff, id: id})
				id++
			}
		}
	}
	// values that look like text for a long stretch and are not: valid UTF-8 with surrounding whitespace for
	// n bytes (n around the window sizes content sniffers use), then bytes that are not UTF-8, then a newline;
	// such a value is not text, so every flag combination must send it as it is
	for _, n := range []int{510, 1022, 4094, 7998, 8190, 32766, 65534} {
		in := append([]byte(" "), bytes.Repeat([]byte("a"), n)...)
		in = append(in, 0xc3, 0x28, 0xff, '\n')
		for m := 0; m < 8; m++ {
			for _, ff := range []bool{true, false} {
				jobs = append(jobs, job{in: in, verb: m&1 != 0, trim: m&2 != 0, empty: m&4 != 0, fromFile: ff, id: id})
				id++
			}
		}
	}
	hexClip := func(b []byte) string {
		if len(b) <= 64 {
			return fmt.Sprintf("%x", b)
		}
		return fmt.Sprintf("%x...(%d bytes, sha256 %x)", b[:16], len(b), sha256.Sum256(b))
	}
	var mu sync.Mutex
	// requests are counted globally, so CLI runs are sequential
	for _, j := range jobs {
		if env.Expired() {
			sec.Exhaustive = false
			break
		}
		name := fmt.Sprintf("cli/%d", j.id)
		a := []string{"-s", srv.URL, "put"}
		if j.verb {
			a = append(a, "--verbatim")
		}
		if j.trim {
			a = append(a, "--trim-space")
		}
		if j.empty {
			a = append(a, "--empty-ok")
		}
		c := exec.Command(bin)
		if j.fromFile {
			fp := filepath.Join(base, "in.bin")
			os.WriteFile(fp, j.in, 0o600)
			a = append(a, "--from-file", fp)
			c.Stdin = nil
		} else {
			c.Stdin = bytes.NewReader(j.in)
		}
		a = append(a, name)
		c.Args = append([]string{bin}, a...)
		c.Env = append(os.Environ(), "SETEC_SERVER=")
		before := reqs.Load()
		out, err := c.CombinedOutput()
		sent := reqs.Load() - before
		exit := 0
		if err != nil {
			exit = 1
		}
		sec.Evaluations++
		want, refused := cliReference(j.in, j.verb, j.trim, j.empty)
		desc := fmt.Sprintf("input %s flags verbatim=%v trim-space=%v empty-ok=%v source=%s", hexClip(j.in), j.verb, j.trim, j.empty, map[bool]string{true: "file", false: "pipe"}[j.fromFile])
		fail := func(kind, msg string) {
			mu.Lock()
			rep.Violate(sec.Name, "cli/"+kind+": "+desc, desc+": "+msg+" (output: "+report.Clip(report.OneLine(string(out)), 160)+")", map[string]any{"input_hex": hexClip(j.in), "verbatim": j.verb, "trim": j.trim, "empty_ok": j.empty, "from_file": j.fromFile})
			mu.Unlock()
		}
		if len(j.in) == 0 || (utf8.Valid(j.in) && len(bytes.TrimSpace(j.in)) != len(j.in)) {
			sec.Nontrivial++
		}
		sv, gerr := d.Get(hx.Super(), name)
		if refused {
			if sent != 0 {
				fail("refusal-contacted-server", fmt.Sprintf("must be refused without contacting the server, but %d requests arrived", sent))
			}
			if exit == 0 {
				fail("refusal-exit-status", "must be refused, but the command exited 0")
			}
			if gerr == nil {
				fail("refusal-stored", fmt.Sprintf("must be refused, but the server stored %s", hexClip(sv.Value)))
			}
			continue
		}
		// alternatives where one reading refuses
		ok := false
		if gerr == nil {
			for _, w := range want {
				if bytes.Equal(sv.Value, w) {
					ok = true
				}
			}
		}
		mayRefuse := false
		if j.verb && j.trim {
			_, r1 := cliReference(j.in, true, false, j.empty)
			_, r2 := cliReference(j.in, false, true, j.empty)
			mayRefuse = r1 || r2
		}
		if !ok && !(mayRefuse && gerr != nil && sent == 0 && exit != 0) {
			got := "nothing"
			if gerr == nil {
				got = hexClip(sv.Value)
			}
			var ws []string
			for _, w := range want {
				ws = append(ws, hexClip(w))
			}
			fail("value-sent", fmt.Sprintf("server received %s, policy says one of %v (exit %d, %d requests)", got, ws, exit, sent))
		} else if ok && exit != 0 {
			fail("exit-status", "value stored but the command failed")
		}
	}
	sec.States, sec.Transitions = int64(len(inputs)), sec.Evaluations
	sec.Samples = append(sec.Samples, "setec -s URL put --trim-space --from-file f name with f=200a61 -> server receives 61", "echo -n ' ' | setec put name -> refused, 0 requests")
	_ = strings.TrimSpace
}
