// Harness for C06: the audit log records every disclosure, mutation attempt
// and denial, before the effect, fail-closed; concurrent records are never
// interleaved, truncated or lost.
package c06

import (
	"bytes"
	"context"
	"encoding/json"
	"errors"
	"fmt"
	"net/http"
	"net/http/httptest"
	"net/netip"
	"os"
	"path/filepath"
	"sort"
	"strings"
	"sync"
	"syscall"
	"testing"

	"github.com/tailscale/setec/acl"
	"github.com/tailscale/setec/audit"
	"github.com/tailscale/setec/db"
	"github.com/tailscale/setec/server"
	"github.com/tailscale/setec/types/api"
	"tailscale.com/client/tailscale/apitype"
	"tailscale.com/tailcfg"

	"verif/hx"
	"verif/model"
	"verif/report"
	"verif/sched"
	"verif/shim/vos"
)

var kek = hx.NewKEK()

type Op struct {
	Kind  string `json:"k"` // put activate delver delete get getver getcond info list
	Name  string `json:"n,omitempty"`
	Value string `json:"v,omitempty"`
	Ver   uint32 `json:"ver,omitempty"`
}

func (o Op) String() string {
	switch o.Kind {
	case "put":
		return fmt.Sprintf("put(%s,%q)", o.Name, o.Value)
	case "list":
		return "list"
	case "get", "info", "delete":
		return fmt.Sprintf("%s(%s)", o.Kind, o.Name)
	}
	return fmt.Sprintf("%s(%s,%d)", o.Kind, o.Name, o.Ver)
}

func (o Op) action() acl.Action {
	switch o.Kind {
	case "put":
		return acl.ActionPut
	case "activate":
		return acl.ActionActivate
	case "delver", "delete":
		return acl.ActionDelete
	case "info", "list":
		return acl.ActionInfo
	}
	return acl.ActionGet
}

type res struct {
	class    model.Class
	hasValue bool
	err      string
	extra    bool // the error tree has a leaf that is not db.ErrAccessDenied (a refusal together with another failure)
}

// otherFailure reports whether err's tree (Unwrap() error and Unwrap() []error) has a leaf that is not
// db.ErrAccessDenied.  It does not look at error texts.
func otherFailure(err error) bool {
	if err == nil {
		return false
	}
	switch u := err.(type) {
	case interface{ Unwrap() []error }:
		for _, e := range u.Unwrap() {
			if otherFailure(e) {
				return true
			}
		}
		return false
	case interface{ Unwrap() error }:
		if in := u.Unwrap(); in != nil {
			return otherFailure(in)
		}
	}
	return err != db.ErrAccessDenied
}

func apply(d *db.DB, c db.Caller, o Op) res {
	var err error
	has := false
	switch o.Kind {
	case "put":
		_, err = d.Put(c, o.Name, []byte(o.Value))
	case "activate":
		err = d.Activate(c, o.Name, api.SecretVersion(o.Ver))
	case "delver":
		err = d.DeleteVersion(c, o.Name, api.SecretVersion(o.Ver))
	case "delete":
		err = d.Delete(c, o.Name)
	case "get":
		var sv *api.SecretValue
		sv, err = d.Get(c, o.Name)
		has = sv != nil
	case "getver":
		var sv *api.SecretValue
		sv, err = d.GetVersion(c, o.Name, api.SecretVersion(o.Ver))
		has = sv != nil
	case "getcond":
		var sv *api.SecretValue
		sv, err = d.GetConditional(c, o.Name, api.SecretVersion(o.Ver))
		has = sv != nil
	case "info":
		var in *api.SecretInfo
		in, err = d.Info(c, o.Name)
		has = in != nil
	case "list":
		var l []*api.SecretInfo
		l, err = d.List(c)
		has = l != nil
	}
	r := res{class: hx.Classify(err), hasValue: has, extra: otherFailure(err)}
	if err != nil {
		r.err = err.Error()
	}
	return r
}

// events
type event struct {
	kind string // audit-write audit-sync fs return
	data []byte
}

// recSink is the audit sink: it records writes and syncs in the shared event log and can fail.
type recSink struct {
	ev         *[]event
	mu         *sync.Mutex
	failWrite  int // fail the k-th write (1-based); 0 = never
	failSync   int
	nw, ns     int
	shortWrite bool
	short      int    // bytes the failing write accepts before it reports its error
	stream     []byte // every byte the sink accepted, in order: what an audit file would hold
}

var errSink = errors.New("audit sink failure (injected)")

func (s *recSink) Write(p []byte) (int, error) {
	s.mu.Lock()
	defer s.mu.Unlock()
	s.nw++
	if s.nw == s.failWrite {
		*s.ev = append(*s.ev, event{kind: "audit-write-failed"})
		n := min(s.short, len(p))
		s.stream = append(s.stream, p[:n]...)
		return n, errSink
	}
	*s.ev = append(*s.ev, event{kind: "audit-write", data: append([]byte(nil), p...)})
	s.stream = append(s.stream, p...)
	return len(p), nil
}

func (s *recSink) Sync() error {
	s.mu.Lock()
	defer s.mu.Unlock()
	s.ns++
	if s.ns == s.failSync {
		*s.ev = append(*s.ev, event{kind: "audit-sync-failed"})
		return errSink
	}
	*s.ev = append(*s.ev, event{kind: "audit-sync"})
	return nil
}

type fsHook struct {
	dir string
	ev  *[]event
	mu  *sync.Mutex
}

func (h *fsHook) Before(c *vos.Call) {
	if c.Mutating && strings.HasPrefix(c.Path, h.dir) {
		h.mu.Lock()
		*h.ev = append(*h.ev, event{kind: "fs", data: []byte(c.Op)})
		h.mu.Unlock()
	}
}
func (h *fsHook) After(c *vos.Call, err error) {}

type callerKind struct {
	name  string
	rules acl.Rules
}

var callers = []callerKind{
	{"authorised", acl.Rules{{Action: hx.AllActions, Secret: []acl.Secret{"*"}}}},
	{"unauthorised", nil},
	{"partial", acl.Rules{{Action: []acl.Action{acl.ActionGet, acl.ActionInfo}, Secret: []acl.Secret{"a"}}, {Action: []acl.Action{acl.ActionPut}, Secret: []acl.Secret{"b*"}}}},
}

func principal(kind string) audit.Principal {
	p := hx.Super().Principal
	p.User = kind + "@example.com"
	return p
}

var probeOps = []Op{
	{Kind: "get", Name: "a"}, {Kind: "get", Name: "b"}, {Kind: "get", Name: "zz"},
	{Kind: "getver", Name: "a", Ver: 1}, {Kind: "getver", Name: "a", Ver: 2}, {Kind: "getver", Name: "a", Ver: 7},
	{Kind: "getcond", Name: "a", Ver: 1}, {Kind: "getcond", Name: "a", Ver: 2}, {Kind: "getcond", Name: "zz", Ver: 1}, {Kind: "getcond", Name: "b", Ver: 1},
	{Kind: "info", Name: "a"}, {Kind: "list"},
	{Kind: "put", Name: "a", Value: "new"}, {Kind: "put", Name: "b", Value: "bee"}, {Kind: "put", Name: "", Value: "x"}, {Kind: "put", Name: "_internal/x", Value: "x"},
	{Kind: "activate", Name: "a", Ver: 2}, {Kind: "activate", Name: "a", Ver: 0}, {Kind: "activate", Name: "zz", Ver: 1},
	{Kind: "delver", Name: "a", Ver: 2}, {Kind: "delver", Name: "a", Ver: 1}, {Kind: "delete", Name: "a"}, {Kind: "delete", Name: "zz"},
	// names of unusual shape: long (nothing bounds a name's length), with a newline, with a quote and a backslash
	{Kind: "get", Name: longName}, {Kind: "put", Name: longName, Value: "v"}, {Kind: "delete", Name: longName},
	{Kind: "put", Name: "line1\nline2", Value: "v"}, {Kind: "get", Name: `q"uote\back`},
}

var longName = "tenant/" + strings.Repeat("k", 300) + "/db-password"

type entry struct {
	ID            uint64          `json:"id"`
	Time          string          `json:"time"`
	Principal     audit.Principal `json:"principal"`
	Action        string          `json:"action"`
	Authorized    *bool           `json:"authorized"`
	Secret        string          `json:"secret"`
	SecretVersion uint32          `json:"secretVersion"`
}

func parseLine(b []byte) (*entry, error) {
	if len(b) == 0 || b[len(b)-1] != '\n' {
		return nil, fmt.Errorf("record is not one complete line: %q", b)
	}
	if bytes.Count(b, []byte("\n")) != 1 {
		return nil, fmt.Errorf("write holds %d lines", bytes.Count(b, []byte("\n")))
	}
	var e entry
	dec := json.NewDecoder(bytes.NewReader(b))
	if err := dec.Decode(&e); err != nil {
		return nil, fmt.Errorf("record is not a JSON object: %v: %q", err, b)
	}
	if e.Authorized == nil || e.Action == "" || e.Time == "" {
		return nil, fmt.Errorf("record lacks action/authorized/time: %q", b)
	}
	return &e, nil
}

// runPair: the sink accepts only part of the first request's record and reports an error (a full
// disk), then works again; a second request follows. The first must fail closed. The second may
// fail closed too; if it is served or takes effect, the audit log - the bytes the sink accepted, in
// order - must hold one complete line of its own for it.
func runPair(dir string, file []byte, ck callerKind, o1, o2 Op, short int) (string, string) {
	p := filepath.Join(dir, "db")
	os.Remove(p)
	os.WriteFile(p, file, 0o600)
	var ev []event
	var mu sync.Mutex
	sk := &recSink{ev: &ev, mu: &mu, failWrite: 1, short: short}
	d, err := db.Open(p, kek, audit.New(sk))
	if err != nil {
		panic(err)
	}
	caller := db.Caller{Principal: principal(ck.name), Permissions: ck.rules}
	before := hx.DumpKey(d)
	r1 := apply(d, caller, o1)
	if sk.nw >= 1 && (r1.class == model.OK || r1.hasValue || hx.DumpKey(d) != before) {
		return "fail-open", fmt.Sprintf("the sink accepted %d bytes of the record and reported an error, but %v returned %v (value=%v)", short, o1, r1.class, r1.hasValue)
	}
	before = hx.DumpKey(d)
	nw := sk.nw
	r2 := apply(d, caller, o2)
	after := hx.DumpKey(d)
	served := r2.hasValue || after != before
	denied := r2.class == model.Denied
	if !served && !denied {
		return "", "" // failed closed, or an outcome that needs no record
	}
	for _, line := range bytes.SplitAfter(sk.stream, []byte("\n")) {
		if e, err := parseLine(line); err == nil && e.Action == string(o2.action()) && e.Secret == o2.Name {
			return "", ""
		}
	}
	return "record-lost-after-torn-write", fmt.Sprintf("after a torn record (%d bytes accepted, then an error) %v was answered %v (value=%v, state changed=%v, %d further sink writes), but the audit log holds no complete line for it: %q", short, o2, r2.class, r2.hasValue, after != before, sk.nw-nw, sk.stream)
}

// runOne executes one probe in a state and judges the event log.
func runOne(dir string, file []byte, ck callerKind, o Op, failWrite, failSync int, viaHTTP bool) (string, string) {
	p := filepath.Join(dir, "db")
	os.Remove(p)
	os.WriteFile(p, file, 0o600)
	var ev []event
	var mu sync.Mutex
	sk := &recSink{ev: &ev, mu: &mu, failWrite: failWrite, failSync: failSync}
	d, err := db.Open(p, kek, audit.New(sk))
	if err != nil {
		panic(err)
	}
	before := hx.DumpKey(d)
	vos.SetHook(&fsHook{dir: dir, ev: &ev, mu: &mu})
	caller := db.Caller{Principal: principal(ck.name), Permissions: ck.rules}
	var r res
	if viaHTTP {
		r = applyHTTP(d, ck, o)
		// the recorded principal is what the handler derives from WhoIs and the source address
		caller.Principal = audit.Principal{User: ck.name + "@example.com", Hostname: "node.example.ts.net", IP: netip.MustParseAddr("100.99.98.97")}
	} else {
		r = apply(d, caller, o)
	}
	vos.SetHook(nil)
	after := hx.DumpKey(d)
	allowed := ck.rules.Allow(o.action(), o.Name) // the ACL evaluator itself is C07's subject
	if o.Kind == "list" {
		allowed = true
	}
	// collect records, with the index of the event that synced them
	type recd struct {
		e      *entry
		at     int
		synced int
	}
	var recs []recd
	firstFS := -1
	sinkFailed := false
	for i, e := range ev {
		switch e.kind {
		case "audit-write":
			en, err := parseLine(e.data)
			if err != nil {
				return "malformed-record", err.Error()
			}
			recs = append(recs, recd{e: en, at: i, synced: -1})
		case "audit-sync":
			for k := range recs {
				if recs[k].synced < 0 {
					recs[k].synced = i
				}
			}
		case "fs":
			if firstFS < 0 {
				firstFS = i
			}
		case "audit-write-failed", "audit-sync-failed":
			sinkFailed = true
		}
	}
	if sinkFailed {
		if r.class == model.OK || r.hasValue {
			return "fail-open", fmt.Sprintf("audit sink failed but the call returned %v (value=%v)", r.class, r.hasValue)
		}
		if after != before || firstFS >= 0 {
			return "fail-open-effect", fmt.Sprintf("audit sink failed but the database changed (%s -> %s, fs calls=%v)", before, after, firstFS >= 0)
		}
		return "", ""
	}
	check := func(want string) (string, string) {
		// exactly one record, matching, synced before effect / return
		if len(recs) != 1 {
			return "record-count", fmt.Sprintf("%s: %d audit records, want exactly 1 (events %s)", want, len(recs), evString(ev))
		}
		rc := recs[0]
		e := rc.e
		wantAuth := allowed
		if e.Action != string(o.action()) || e.Secret != o.Name || *e.Authorized != wantAuth || e.Principal.User != caller.Principal.User || e.Principal.Hostname != caller.Principal.Hostname || e.Principal.IP != caller.Principal.IP {
			return "record-content", fmt.Sprintf("%s: record %+v (authorized=%v) does not name caller %s, action %s, secret %q, authorized=%v", want, *e, *e.Authorized, caller.Principal.User, o.action(), o.Name, wantAuth)
		}
		switch o.Kind {
		case "getver", "activate", "delver":
			if e.SecretVersion != o.Ver {
				return "record-version", fmt.Sprintf("%s: record has version %d, request gave %d", want, e.SecretVersion, o.Ver)
			}
		}
		if rc.synced < 0 {
			return "record-not-synced", fmt.Sprintf("%s: record written but never synced (events %s)", want, evString(ev))
		}
		if firstFS >= 0 && (rc.at > firstFS || rc.synced > firstFS) {
			return "record-after-effect", fmt.Sprintf("%s: the first file-system effect precedes the synced audit record (events %s)", want, evString(ev))
		}
		return "", ""
	}
	switch {
	case !allowed && o.Kind != "list" && !(o.Kind == "put" && o.Name == "") && !(o.Kind == "activate" && o.Name == ""):
		if r.class != model.Denied || r.hasValue || after != before {
			return "denial", fmt.Sprintf("not permitted, but result %v value=%v state changed=%v", r.class, r.hasValue, after != before)
		}
		return check("refused request")
	case r.hasValue && (o.Kind == "get" || o.Kind == "getver" || o.Kind == "getcond"):
		return check("secret value returned")
	case after != before || firstFS >= 0:
		return check("mutation took effect")
	case o.Kind == "getcond" && r.class == model.NotChanged:
		if len(recs) != 0 {
			return "unchanged-poll-logged", fmt.Sprintf("conditional get found the caller's version current but wrote %d audit records", len(recs))
		}
	}
	// everything else (failed lookups, metadata): any records must still be complete lines
	return "", ""
}

// applyHTTP performs o through the registered HTTP handlers with a WhoIs answer granting exactly ck.rules.
func applyHTTP(d *db.DB, ck callerKind, o Op) res {
	mux := http.NewServeMux()
	var raw []tailcfg.RawMessage
	for _, r := range ck.rules {
		b, _ := json.Marshal(r)
		raw = append(raw, tailcfg.RawMessage(b))
	}
	who := func(context.Context, string) (*apitype.WhoIsResponse, error) {
		return &apitype.WhoIsResponse{Node: &tailcfg.Node{Name: "node.example.ts.net"}, UserProfile: &tailcfg.UserProfile{ID: 3, LoginName: ck.name + "@example.com"}, CapMap: tailcfg.PeerCapMap{server.ACLCap: raw}}, nil
	}
	if _, err := server.New(context.Background(), server.Config{DB: d, WhoIs: who, Mux: mux}); err != nil {
		panic(err)
	}
	var path string
	var body any
	switch o.Kind {
	case "put":
		path, body = "/api/put", api.PutRequest{Name: o.Name, Value: []byte(o.Value)}
	case "activate":
		path, body = "/api/activate", api.ActivateRequest{Name: o.Name, Version: api.SecretVersion(o.Ver)}
	case "delver":
		path, body = "/api/delete-version", api.DeleteVersionRequest{Name: o.Name, Version: api.SecretVersion(o.Ver)}
	case "delete":
		path, body = "/api/delete", api.DeleteRequest{Name: o.Name}
	case "get":
		path, body = "/api/get", api.GetRequest{Name: o.Name}
	case "getver":
		path, body = "/api/get", api.GetRequest{Name: o.Name, Version: api.SecretVersion(o.Ver)}
	case "getcond":
		path, body = "/api/get", api.GetRequest{Name: o.Name, Version: api.SecretVersion(o.Ver), UpdateIfChanged: true}
	case "info":
		path, body = "/api/info", api.InfoRequest{Name: o.Name}
	case "list":
		path, body = "/api/list", api.ListRequest{}
	}
	bs, _ := json.Marshal(body)
	req := httptest.NewRequest("POST", path, bytes.NewReader(bs))
	req.RemoteAddr = "100.99.98.97:4000"
	req.Header.Set("Content-Type", "application/json")
	req.Header.Set("Sec-X-Tailscale-No-Browsers", "setec")
	rec := httptest.NewRecorder()
	mux.ServeHTTP(rec, req)
	switch rec.Code {
	case 200:
		has := false
		switch o.Kind {
		case "get", "getver", "getcond", "info", "list":
			has = true
		}
		return res{class: model.OK, hasValue: has}
	case 403:
		return res{class: model.Denied}
	case 404:
		return res{class: model.NotFound}
	case 304:
		return res{class: model.NotChanged}
	}
	return res{class: model.OtherErr, err: rec.Body.String()}
}

func evString(ev []event) string {
	var s []string
	for _, e := range ev {
		if e.kind == "fs" {
			s = append(s, "fs:"+string(e.data))
		} else {
			s = append(s, e.kind)
		}
	}
	return strings.Join(s, ",")
}

// states reachable by short histories (names a, b)
func states(depth int) map[string][]byte {
	alpha := []Op{{Kind: "put", Name: "a", Value: "x"}, {Kind: "put", Name: "a", Value: "y"}, {Kind: "put", Name: "b", Value: "z"}, {Kind: "activate", Name: "a", Ver: 2}, {Kind: "delver", Name: "a", Ver: 1}, {Kind: "delete", Name: "a"}}
	dir := hx.Scratch("c06s-")
	defer os.RemoveAll(dir)
	p := filepath.Join(dir, "db")
	d, _ := db.Open(p, kek, hx.Discard())
	f0, _ := os.ReadFile(p)
	out := map[string][]byte{hx.DumpKey(d): f0}
	frontier := [][]byte{f0}
	for l := 0; l < depth; l++ {
		var next [][]byte
		for _, f := range frontier {
			for _, o := range alpha {
				os.WriteFile(p, f, 0o600)
				d, _ := db.Open(p, kek, hx.Discard())
				apply(d, db.Caller{Permissions: callers[0].rules}, o)
				k := hx.DumpKey(d)
				if _, ok := out[k]; !ok {
					nf, _ := os.ReadFile(p)
					out[k] = nf
					next = append(next, nf)
				}
			}
		}
		frontier = next
	}
	return out
}

func TestCheck(t *testing.T) {
	env := report.FromEnv()
	rep := env.New("C06")
	defer rep.Guard(env)
	rep.Assumptions = []string{
		"'synced' is judged as: a Sync on the sink after the record's write and before the first effect / the return",
		"the ACL decision used to classify a request as permitted comes from acl.Rules.Allow itself (its correctness is C07)",
		"concurrent part: scheduling points are the audit file's write and sync system calls and the database mutex",
	}
	depth := 3
	if env.Thorough() {
		depth = 5
	}
	sts := states(depth)
	var keys []string
	for k := range sts {
		keys = append(keys, k)
	}
	sort.Strings(keys)
	sec := rep.Add(&report.Section{Name: fmt.Sprintf("sequential-all-states-depth%d", depth), Engine: "seqx", Exhaustive: true, Extra: map[string]int64{},
		Rule: "every database state reachable within the depth × caller {authorised, unauthorised, partially authorised} × 23 operation instances, at the db.DB API and through the HTTP handlers (WhoIs granting exactly the caller's rules), with a recording sink; then the same with the sink failing at the record's write or at its sync, and with a sink that accepts part of one record, reports an error, recovers, and is followed by a second request; one event log orders sink writes, sink syncs, file-system effects and the return; non-trivial = probes that must produce exactly one record"})
	{
		// states are partitioned over the worker processes; within a process they run one at a time
		// (the file-system hook is process-global)
		dir := hx.Scratch("c06-")
		for i, k := range keys {
			if !env.Mine(int64(i)) {
				continue
			}
			for _, ck := range callers {
				for _, o := range probeOps {
					if kind, msg := runOne(dir, sts[k], ck, o, 0, 0, true); kind != "" {
						rep.Violate(sec.Name, fmt.Sprintf("audit-http/%s: caller=%s op=%v", kind, ck.name, o), fmt.Sprintf("state %s caller %s %v through the HTTP handler: %s", k, ck.name, o, msg), map[string]any{"state": k, "caller": ck.name, "op": o, "http": true})
					} else {
						sec.Nontrivial++
					}
					sec.Evaluations++
					sec.Extra["http_probes"]++
					if ck.name == callers[0].name {
						for _, short := range []int{1, 40} {
							kind, msg := runPair(dir, sts[k], ck, Op{Kind: "get", Name: "a"}, o, short)
							sec.Evaluations++
							sec.Extra["torn_record_then_next_request"]++
							if kind != "" {
								rep.Violate(sec.Name, fmt.Sprintf("audit/%s: caller=%s op=%v short=%d", kind, ck.name, o, short), fmt.Sprintf("state %s caller %s: %s", k, ck.name, msg), map[string]any{"state": k, "caller": ck.name, "op": o, "short": short})
							}
						}
					}
					for _, fm := range [][2]int{{0, 0}, {1, 0}, {0, 1}} {
						kind, msg := runOne(dir, sts[k], ck, o, fm[0], fm[1], false)
						sec.Evaluations++
						if fm != [2]int{0, 0} {
							sec.Extra["sink_failure_runs"]++
						}
						if kind != "" {
							rep.Violate(sec.Name, fmt.Sprintf("audit/%s: caller=%s op=%v sinkfail=%v", kind, ck.name, o, fm), fmt.Sprintf("state %s caller %s %v (sink fails at write %d / sync %d): %s", k, ck.name, o, fm[0], fm[1], msg), map[string]any{"state": k, "caller": ck.name, "op": o, "fail": fm})
						} else if fm == [2]int{0, 0} {
							sec.Nontrivial++
						}
					}
				}
			}
			sec.States++
		}
		os.RemoveAll(dir)
	}
	sec.Transitions = sec.Evaluations
	sec.Samples = append(sec.Samples, map[string]any{"state": keys[len(keys)/2], "probe": "caller=partial getcond(a,1)", "expect": "not-changed => no record; else one synced record before return"})

	// concurrent part
	scs := concurrentScenarios(env.Thorough())
	if hx.ReplaySched(t, env, rep, scs) {
		rep.Write(env)
		return
	}
	hx.ExploreScenarios(t, env, rep, "concurrent-real-audit-file-all-interleavings", scs, -1, false, nil)
	if err := rep.Write(env); err != nil {
		t.Fatal(err)
	}
}

// ---- concurrent: real audit file through vos, gates at its write and sync calls ----

func concurrentScenarios(thorough bool) []hx.Scenario {
	ops := []Op{{Kind: "get", Name: "a"}, {Kind: "put", Name: "a", Value: "n"}, {Kind: "getcond", Name: "a", Ver: 2}, {Kind: "get", Name: "denied"}, {Kind: "list"}, {Kind: "delete", Name: "a"}, {Kind: "getcond", Name: "a", Ver: 1}, {Kind: "activate", Name: "a", Ver: 2}}
	var out []hx.Scenario
	for i, a := range ops {
		for _, b := range ops[i:] {
			progs := [][]Op{{a}, {b}}
			out = append(out, hx.Scenario{Name: fmt.Sprintf("%v || %v", a, b), Make: concScenario(progs)})
		}
	}
	two := [][]Op{{ops[0], ops[1]}, {ops[1], ops[0]}, {ops[2], ops[3]}, {ops[5], ops[1]}}
	for i, a := range two {
		for _, b := range two[i:] {
			out = append(out, hx.Scenario{Name: fmt.Sprintf("%v || %v", a, b), Make: concScenario([][]Op{a, b})})
		}
	}
	// a failing fsync among overlapping requests: no caller may go ahead on a record that only a failed fsync covered
	fops := []Op{ops[0], ops[1], ops[3]}
	for i, a := range fops {
		for _, b := range fops[i:] {
			for f := 1; f <= 2; f++ {
				out = append(out, hx.Scenario{Name: fmt.Sprintf("fsync %d fails: %v || %v", f, a, b), Make: concScenarioF([][]Op{{a}, {b}}, f)})
			}
		}
	}
	for f := 1; f <= 3; f++ {
		out = append(out, hx.Scenario{Name: fmt.Sprintf("fsync %d fails: 3 clients get || get || put", f), Make: concScenarioF([][]Op{{ops[0]}, {ops[0]}, {ops[1]}}, f)})
	}
	if thorough {
		for i := range fops {
			for j := i; j < len(fops); j++ {
				for k := j; k < len(fops); k++ {
					for f := 1; f <= 3; f++ {
						out = append(out, hx.Scenario{Name: fmt.Sprintf("fsync %d fails: 3 clients: %v || %v || %v", f, fops[i], fops[j], fops[k]), Make: concScenarioF([][]Op{{fops[i]}, {fops[j]}, {fops[k]}}, f)})
					}
				}
			}
		}
		for i := range ops {
			for j := i; j < len(ops); j++ {
				for k := j; k < len(ops); k++ {
					out = append(out, hx.Scenario{Name: fmt.Sprintf("3 clients: %v || %v || %v", ops[i], ops[j], ops[k]), Make: concScenario([][]Op{{ops[i]}, {ops[j]}, {ops[k]}})})
				}
			}
		}
	}
	return out
}

func concScenario(progs [][]Op) func() *sched.Harness { return concScenarioF(progs, 0) }

// concScenarioF is concScenario with the failSync-th fsync of the audit file failing (0: none).  The oracle is
// unchanged: a failed fsync makes nothing durable, so any call that still returns a value, a mutation or a
// denial must have had its record covered by a later fsync that succeeded.
func concScenarioF(progs [][]Op, failSync int) func() *sched.Harness {
	return func() *sched.Harness {
		var syncN int
		var dir string
		var d *db.DB
		var aw *audit.Writer
		var mu sync.Mutex
		var returned []string // "client:op" in return order, with the file length at return time
		type ret struct {
			who     string
			op      Op
			res     res
			size    int64
			durable int64
		}
		var durable int64
		var syncStart map[*vos.Call]int64
		var rets []ret
		return &sched.Harness{
			Setup: func(x *sched.Exec) {
				returned, rets = nil, nil
				dir = hx.Scratch("c06c-")
				var err error
				apath := filepath.Join(dir, "audit.log")
				aw, err = audit.NewFile(apath)
				if err != nil {
					panic(err)
				}
				d, err = db.Open(filepath.Join(dir, "db"), kek, aw)
				if err != nil {
					panic(err)
				}
				su := hx.Super()
				d.Put(su, "a", []byte("one"))
				d.Put(su, "a", []byte("two"))
				os.Truncate(apath, 0)
				// durability model of the audit file: a completed fsync makes durable whatever the file held when it started
				durable, syncStart = 0, map[*vos.Call]int64{}
				syncN = 0
				vos.SetHook(&hx.GateFS{Filter: func(c *vos.Call) bool {
					return filepath.Base(c.Path) == "audit.log" && (c.Op == "write" || c.Op == "sync")
				}, OnCall: func(c *vos.Call) {
					if c.Op == "sync" {
						fi, _ := os.Stat(apath)
						mu.Lock()
						syncStart[c] = fi.Size()
						syncN++
						if syncN == failSync {
							c.Err = syscall.EIO
						}
						mu.Unlock()
					}
				}, OnDone: func(c *vos.Call, err error) {
					if c.Op == "sync" && err == nil {
						mu.Lock()
						if syncStart[c] > durable {
							durable = syncStart[c]
						}
						mu.Unlock()
					}
				}})
				for i, prog := range progs {
					i, prog := i, prog
					x.Go(fmt.Sprintf("c%d", i), func() {
						defer x.ReportPanic()
						caller := db.Caller{Principal: principal(fmt.Sprintf("client%d", i)), Permissions: acl.Rules{{Action: hx.AllActions, Secret: []acl.Secret{"a", "b"}}}}
						for _, o := range prog {
							r := apply(d, caller, o)
							fi, _ := os.Stat(apath)
							mu.Lock()
							rets = append(rets, ret{who: caller.Principal.User, op: o, res: r, size: fi.Size(), durable: durable})
							mu.Unlock()
						}
					})
				}
			},
			Teardown: func(x *sched.Exec) { vos.SetHook(nil) },
			Final: func(x *sched.Exec) error {
				defer os.RemoveAll(dir)
				aw.Close()
				data, _ := os.ReadFile(filepath.Join(dir, "audit.log"))
				_ = returned
				// every line is one complete JSON record
				var lines []*entry
				var offs []int64
				off := int64(0)
				for _, l := range bytes.SplitAfter(data, []byte("\n")) {
					if len(l) == 0 {
						continue
					}
					e, err := parseLine(l)
					if err != nil {
						return fmt.Errorf("audit file corrupt: %v", err)
					}
					off += int64(len(l))
					lines = append(lines, e)
					offs = append(offs, off)
				}
				// expected multiset: one record per call that returned a value, mutated, or was denied
				want := map[string]int{}
				for _, r := range rets {
					need := false
					switch {
					case r.res.class == model.Denied:
						// a refusal that also reports that its record could not be written is the failing request of
						// the statement's second sentence (no value, no change), not a refusal that claims a record
						need = !r.res.extra
					case r.res.hasValue && (r.op.Kind == "get" || r.op.Kind == "getcond"):
						need = true
					case r.res.class == model.OK && (r.op.Kind == "put" || r.op.Kind == "delete" || r.op.Kind == "activate" || r.op.Kind == "delver"):
						need = true
					case r.op.Kind == "list":
						need = true
					}
					if need {
						want[r.who+"|"+string(r.op.action())+"|"+r.op.Name]++
						// the record precedes the return: it lies within the file as it was when the call returned
						found := false
						for k, e := range lines {
							if e.Principal.User == r.who && e.Action == string(r.op.action()) && e.Secret == r.op.Name && offs[k] <= r.size {
								found = true
							}
						}
						if !found {
							return fmt.Errorf("record missing at return: %s %v returned %v but no complete record of it was in the audit file at that moment", r.who, r.op, r.res.class)
						}
						synced := false
						for k, e := range lines {
							if e.Principal.User == r.who && e.Action == string(r.op.action()) && e.Secret == r.op.Name && offs[k] <= r.durable {
								synced = true
							}
						}
						if !synced {
							return fmt.Errorf("record not synced at return: %s %v returned %v, but no fsync that began after its record was appended had completed by then (durable %d bytes)", r.who, r.op, r.res.class, r.durable)
						}
					}
				}
				got := map[string]int{}
				for _, e := range lines {
					got[e.Principal.User+"|"+e.Action+"|"+e.Secret]++
				}
				// a conditional get that was answered "not changed" writes no record: per client and name, there
				// are at most as many get records as get calls that were answered anything else
				other := map[string]int{}
				unchanged := map[string]bool{}
				for _, r := range rets {
					if r.op.Kind == "get" || r.op.Kind == "getcond" || r.op.Kind == "getver" {
						k := r.who + "|" + string(r.op.action()) + "|" + r.op.Name
						if r.op.Kind == "getcond" && r.res.class == model.NotChanged {
							unchanged[k] = true
						} else {
							other[k]++
						}
					}
				}
				for k := range unchanged {
					if got[k] > other[k] {
						return fmt.Errorf("record for an unchanged conditional get: %q has %d records, but only %d of that client's get calls were answered with anything but \"not changed\"", k, got[k], other[k])
					}
				}
				for k, n := range want {
					if got[k] < n {
						return fmt.Errorf("record lost: want %d records %q, file has %d", n, k, got[k])
					}
				}
				var sum []string
				for _, r := range rets {
					sum = append(sum, fmt.Sprintf("%s:%v=%v", r.who[:7], r.op, r.res.class))
				}
				x.Outcome = fmt.Sprintf("%d lines; %s", len(lines), strings.Join(sum, " "))
				return nil
			},
		}
	}
}
