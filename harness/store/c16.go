package store

import (
	"context"
	"fmt"

	"github.com/tailscale/setec/client/setec"

	"verif/report"
)

// checkLookupDisabled: with lookups disabled only secrets known at
// construction can be obtained, through every entry point, and no request is sent.
func checkLookupDisabled(rep *report.Report) {
	sec := rep.Add(&report.Section{Name: "lookups-disabled-every-entry-point", Engine: "enum", Exhaustive: true,
		Rule: "AllowLookup=false: Secret, LookupSecret, NewUpdater, Fields.Apply × known/unknown name; unknown: Secret panics, the others report an error, zero requests"})
	svc := NewSvc()
	svc.Put("d")
	svc.Put("zz")
	st, err := setec.NewStore(context.Background(), setec.StoreConfig{Client: svc, Secrets: []string{"d"}, PollInterval: -1, Logf: func(string, ...any) {}})
	if err != nil {
		panic(err)
	}
	defer st.Close()
	base := svc.NReq()
	ctx := context.Background()
	type T struct {
		F string `setec:"zz"`
	}
	type K struct {
		F string `setec:"d"`
	}
	bad := func(kind, msg string) {
		rep.Violate(sec.Name, "lookup-disabled/"+kind, msg, nil)
	}
	try := func(name string, f func() error, wantPanic, wantErr bool) {
		sec.Evaluations++
		sec.Nontrivial++
		var pan any
		var err error
		func() {
			defer func() { pan = recover() }()
			err = f()
		}()
		if (pan != nil) != wantPanic {
			bad(name+"-panic", fmt.Sprintf("%s: panic=%v, want panic=%v", name, pan, wantPanic))
		}
		if pan == nil && (err != nil) != wantErr {
			bad(name+"-error", fmt.Sprintf("%s: err=%v, want error=%v", name, err, wantErr))
		}
		sec.Samples = append(sec.Samples, fmt.Sprintf("%s -> panic=%v err=%v", name, pan != nil, err))
	}
	try("Secret(unknown)", func() error { st.Secret("zz"); return nil }, true, false)
	try("Secret(known)", func() error {
		if st.Secret("d") == nil {
			return fmt.Errorf("nil")
		}
		return nil
	}, false, false)
	try("LookupSecret(unknown)", func() error { _, err := st.LookupSecret(ctx, "zz"); return err }, false, true)
	try("LookupSecret(known)", func() error { _, err := st.LookupSecret(ctx, "d"); return err }, false, false)
	try("NewUpdater(unknown)", func() error {
		_, err := setec.NewUpdater(ctx, st, "zz", func(b []byte) (string, error) { return string(b), nil })
		return err
	}, false, true)
	try("NewUpdater(known)", func() error {
		_, err := setec.NewUpdater(ctx, st, "d", func(b []byte) (string, error) { return string(b), nil })
		return err
	}, false, false)
	try("Apply(unknown)", func() error {
		var v T
		f, err := setec.ParseFields(&v, "")
		if err != nil {
			return nil
		}
		return f.Apply(ctx, st)
	}, false, true)
	try("Apply(known)", func() error {
		var v K
		f, err := setec.ParseFields(&v, "")
		if err != nil {
			return err
		}
		return f.Apply(ctx, st)
	}, false, false)
	if n := svc.NReq() - base; n != 0 {
		bad("requests", fmt.Sprintf("%d requests were sent although lookups are disabled", n))
	}
	sec.States, sec.Transitions = sec.Evaluations, sec.Evaluations
}
