package store

import (
	"context"
	"fmt"
	"time"

	"github.com/tailscale/setec/client/setec"

	"verif/report"
)

// checkLookupDisabled: with lookups disabled only secrets known at
// construction can be obtained, through every entry point, and no request is sent.
func checkLookupDisabled(rep *report.Report) {
	sec := rep.Add(&report.Section{Name: "lookups-disabled-every-entry-point", Engine: "enum", Exhaustive: true,
		Rule: "AllowLookup=false: Secret, LookupSecret, NewUpdater, Fields.Apply × known/unknown name; unknown: Secret panics, the others report an error, zero requests"})
	svc := NewSvc()
	svc.Put("d")
	svc.Put("zz")
	st, err := setec.NewStore(context.Background(), setec.StoreConfig{Client: svc, Secrets: []string{"d"}, PollInterval: -1, Logf: func(string, ...any) {}})
	if err != nil {
		panic(err)
	}
	defer st.Close()
	base := svc.NReq()
	ctx := context.Background()
	type T struct {
		F string `setec:"zz"`
	}
	type K struct {
		F string `setec:"d"`
	}
	bad := func(kind, msg string) {
		rep.Violate(sec.Name, "lookup-disabled/"+kind, msg, nil)
	}
	try := func(name string, f func() error, wantPanic, wantErr bool) {
		sec.Evaluations++
		sec.Nontrivial++
		var pan any
		var err error
		func() {
			defer func() { pan = recover() }()
			err = f()
		}()
		if (pan != nil) != wantPanic {
			bad(name+"-panic", fmt.Sprintf("%s: panic=%v, want panic=%v", name, pan, wantPanic))
		}
		if pan == nil && (err != nil) != wantErr {
			bad(name+"-error", fmt.Sprintf("%s: err=%v, want error=%v", name, err, wantErr))
		}
		sec.Samples = append(sec.Samples, fmt.Sprintf("%s -> panic=%v err=%v", name, pan != nil, err))
	}
	try("Secret(unknown)", func() error { st.Secret("zz"); return nil }, true, false)
	try("Secret(known)", func() error {
		if st.Secret("d") == nil {
			return fmt.Errorf("nil")
		}
		return nil
	}, false, false)
	try("LookupSecret(unknown)", func() error { _, err := st.LookupSecret(ctx, "zz"); return err }, false, true)
	try("LookupSecret(known)", func() error { _, err := st.LookupSecret(ctx, "d"); return err }, false, false)
	try("NewUpdater(unknown)", func() error {
		_, err := setec.NewUpdater(ctx, st, "zz", func(b []byte) (string, error) { return string(b), nil })
		return err
	}, false, true)
	try("NewUpdater(known)", func() error {
		_, err := setec.NewUpdater(ctx, st, "d", func(b []byte) (string, error) { return string(b), nil })
		return err
	}, false, false)
	try("Apply(unknown)", func() error {
		var v T
		f, err := setec.ParseFields(&v, "")
		if err != nil {
			return nil
		}
		return f.Apply(ctx, st)
	}, false, true)
	try("Apply(known)", func() error {
		var v K
		f, err := setec.ParseFields(&v, "")
		if err != nil {
			return err
		}
		return f.Apply(ctx, st)
	}, false, false)
	if n := svc.NReq() - base; n != 0 {
		bad("requests", fmt.Sprintf("%d requests were sent although lookups are disabled", n))
	}
	sec.States, sec.Transitions = sec.Evaluations, sec.Evaluations
}

// checkLookupAnswers: one lookup of an unknown name under every combination of environment
// answers: the service answers {value, error, not found} and the cache write the lookup causes
// {succeeds, fails}. Whatever LookupSecret reports must agree with what it left behind: an error
// means nothing was installed (not in the store, not polled afterwards, the next lookup asks the
// service again); success means a working handle whose secret is polled from then on.
func checkLookupAnswers(rep *report.Report) {
	sec := rep.Add(&report.Section{Name: "one-lookup-every-environment-answer", Engine: "enum", Exhaustive: true,
		Rule: "AllowLookup=true, one declared secret: LookupSecret(unknown name) × service answer {value, error, not found} × the cache write caused by the lookup {ok, fails} × cache {none, present}; reported error ⇒ name absent from the store, not requested by the next poll, and a second lookup sends a new request; reported success ⇒ handle yields the served bytes, the next poll asks for the name, and (cache write ok) the cache holds it; non-trivial = combinations with a failing answer"})
	for _, svcAns := range []string{"value", "error", "notfound"} {
		for _, cacheMode := range []string{"none", "ok", "write-fails"} {
			desc := fmt.Sprintf("service=%s cache=%s", svcAns, cacheMode)
			sec.Evaluations++
			if svcAns != "value" || cacheMode == "write-fails" {
				sec.Nontrivial++
			}
			svc := NewSvc()
			svc.Put("d")
			if svcAns != "notfound" {
				svc.Put("u")
			}
			if svcAns == "error" {
				svc.FailNext("u", 1)
			}
			var c *HCache
			cfg := setec.StoreConfig{Client: svc, Secrets: []string{"d"}, AllowLookup: true, PollInterval: -1, Logf: func(string, ...any) {}}
			if cacheMode != "none" {
				c = &HCache{}
				cfg.Cache = c
			}
			st, err := setec.NewStore(context.Background(), cfg)
			if err != nil {
				panic(err)
			}
			if cacheMode == "write-fails" {
				c.FailNext = true
			}
			bad := func(kind, msg string) {
				rep.Violate(sec.Name, "lookup-answer/"+kind+": "+desc, desc+": "+msg, nil)
			}
			h, lerr := st.LookupSecret(context.Background(), "u")
			_, installed := st.VerifDump()["u"]
			n0 := len(svc.Log)
			if rerr := st.Refresh(context.Background()); rerr != nil && cacheMode != "write-fails" {
				bad("refresh", "the poll after the lookup failed: "+rerr.Error())
			}
			polled := false
			for _, r := range svc.Log[n0:] {
				if r.Name == "u" {
					polled = true
				}
			}
			switch {
			case lerr != nil:
				if svcAns == "value" && cacheMode != "write-fails" {
					bad("spurious-error", "the service answered and the cache works, yet LookupSecret failed: "+lerr.Error())
				}
				if installed {
					bad("failed-but-installed", fmt.Sprintf("LookupSecret reported %q, yet the secret is in the store's active set", lerr))
				}
				if polled {
					bad("failed-but-polled", fmt.Sprintf("LookupSecret reported %q, yet the next poll asked the service for the name", lerr))
				}
			default:
				if svcAns != "value" {
					bad("no-error", "the service did not serve the secret, yet LookupSecret succeeded")
					break
				}
				_, want, _ := svc.Active("u")
				if got := string(h.Get()); got != want {
					bad("handle", fmt.Sprintf("the handle yields %q, the service served %q", got, want))
				}
				if !installed || !polled {
					bad("not-kept", fmt.Sprintf("after a successful lookup: in the store=%v, polled=%v", installed, polled))
				}
				if cacheMode == "ok" {
					doc, perr := parseCache(c.Data)
					if perr != nil || doc["u"] == nil || doc["u"].Secret == nil || string(doc["u"].Secret.Value) != want {
						bad("not-cached", "after a successful lookup the cache does not hold the secret")
					}
				}
			}
			sec.Samples = append(sec.Samples, fmt.Sprintf("%s -> err=%v installed=%v polled=%v", desc, lerr, installed, polled))
			st.Close()
		}
	}
	sec.States, sec.Transitions = sec.Evaluations, sec.Evaluations
}

// checkLookupsOffKeepsCache (C19): a process that runs with lookups disabled in between two that run
// with lookups enabled shares their cache: it must not drop what it has not declared - nothing is
// dropped except by the expiry rule, at a poll.
func checkLookupsOffKeepsCache(rep *report.Report) {
	sec := rep.Add(&report.Section{Name: "three-processes-one-cache-lookups-off-in-between", Engine: "enum", Exhaustive: true, Extra: map[string]int64{},
		Rule: "expiry age {none, 1 h}: process A (lookups enabled) looks up an undeclared secret and reads it at t=10 s, closes; process B (lookups disabled, same declared secret, same cache) starts at t=20 s, polls, closes; process C (lookups enabled) starts at t=30 s and polls: the undeclared secret must still be in the cache after B and be served by C; non-trivial = all"})
	for _, age := range []time.Duration{0, time.Hour} {
		sec.Evaluations++
		sec.Nontrivial++
		desc := fmt.Sprintf("expiry age %v", age)
		svc := NewSvc()
		svc.Put("d")
		svc.Put("plum")
		c := &HCache{}
		clock := epoch
		mk := func(lookup bool) (*setec.Store, error) {
			return setec.NewStore(context.Background(), setec.StoreConfig{Client: svc, Secrets: []string{"d"}, AllowLookup: lookup, Cache: c, ExpiryAge: age,
				PollTicker: &hTicker{ch: make(chan time.Time)}, Logf: func(string, ...any) {}, TimeNow: func() time.Time { return clock }})
		}
		bad := func(kind, msg string) {
			rep.Violate(sec.Name, "lookups-off/"+kind+": "+desc, desc+": "+msg, map[string]any{"cache": string(c.Data)})
		}
		a, err := mk(true)
		if err != nil {
			panic(err)
		}
		clock = epoch.Add(10 * time.Second)
		h, err := a.LookupSecret(context.Background(), "plum")
		if err != nil {
			panic(err)
		}
		want := string(h.Get())
		a.Close()
		clock = epoch.Add(20 * time.Second)
		b, err := mk(false)
		if err != nil {
			bad("process-b-start", err.Error())
			continue
		}
		b.Refresh(context.Background())
		b.Close()
		if doc, perr := parseCache(c.Data); perr != nil || doc["plum"] == nil || doc["plum"].Secret == nil {
			bad("dropped-from-cache", fmt.Sprintf("after the process with lookups disabled the cache no longer holds the undeclared secret (read 10 s earlier): %q", report.Clip(string(c.Data), 200)))
		}
		clock = epoch.Add(30 * time.Second)
		cst, err := mk(true)
		if err != nil {
			bad("process-c-start", err.Error())
			continue
		}
		cst.Refresh(context.Background())
		if _, ok := cst.VerifDump()["plum"]; !ok {
			bad("dropped-from-store", "the third process no longer knows the undeclared secret")
		} else if hh, err := cst.LookupSecret(context.Background(), "plum"); err != nil || string(hh.Get()) != want {
			bad("value", fmt.Sprintf("the third process serves %v for the undeclared secret, want %q", err, want))
		}
		cst.Close()
	}
	sec.States, sec.Transitions = sec.Evaluations, sec.Evaluations
}
