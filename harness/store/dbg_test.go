package store

import (
	"fmt"
	"os"
	"strings"
	"testing"

	"verif/sched"
)

func TestDbg(t *testing.T) {
	name := os.Getenv("DBG_SCEN")
	if name == "" {
		t.Skip()
	}
	var all []*scen
	all = append(all, pollScenarios()...)
	all = append(all, lookupScenarios()...)
	all = append(all, lookupTimingScenarios()...)
	for _, sc := range all {
		if !strings.HasPrefix(sc.Name, name) {
			continue
		}
		var sink []violation
		h := sc.harness(map[string]bool{"C11": true, "C12": true, "C13": true, "C16": true, "C19": true}, &sink)()
		var pre []sched.Choice
		for _, f := range strings.Fields(os.Getenv("DBG_PREFIX")) {
			var i int
			fmt.Sscan(f, &i)
			pre = append(pre, sched.Choice{Idx: i})
		}
		r := sched.Run(t, h, pre)
		fmt.Println("TRACE:\n" + strings.Join(r.Trace, "\n"))
		fmt.Println("STUCK:", r.Stuck, "VIOL:", r.Violation, "ENGINE:", r.EngineErr, "OUTCOME:", r.Outcome)
	}
}
