package store

import (
	"context"
	"errors"
	"fmt"
	"io"
	"sort"
	"strings"
	"sync"
	"testing"

	"github.com/tailscale/setec/client/setec"

	"verif/hx"
	"verif/report"
	"verif/sched"
)

// built is the value an Updater maintains; it implements io.Closer.
type built struct {
	id     int
	from   string // the secret bytes it was built from
	closed int
}

func (b *built) Close() error { b.closed++; return nil }

type builderLog struct {
	mu       sync.Mutex
	all      []*built
	failNext bool
	calls    int
	seam     bool
}

func (l *builderLog) build(bs []byte) (*built, error) {
	if l.seam {
		// the builder is a user callback and may be slow: a scheduling point
		sched.Seam("builder")
	}
	l.mu.Lock()
	defer l.mu.Unlock()
	l.calls++
	if l.failNext {
		l.failNext = false
		return nil, errors.New("builder failed (scripted)")
	}
	b := &built{id: len(l.all), from: string(bs)}
	l.all = append(l.all, b)
	return b, nil
}

// ---------- sequential: every event sequence up to a depth ----------

type updModel struct {
	cur     *built
	pending bool // an install happened since the previous Get began (or since creation)
	err     bool
	log     *builderLog
	u       *setec.Updater[*built]
}

func c15Sequence(seq []string) (msg, kind string) {
	svc := NewSvc()
	svc.Put("d")
	cache := &HCache{}
	st, err := setec.NewStore(context.Background(), setec.StoreConfig{Client: svc, Secrets: []string{"d"}, Cache: cache, PollInterval: -1, Logf: func(string, ...any) {}})
	if err != nil {
		return err.Error(), "harness"
	}
	defer st.Close()
	var ups []*updModel
	failNext := false
	for i, ev := range seq {
		where := fmt.Sprintf("step %d (%s) of [%s]", i, ev, strings.Join(seq, " "))
		switch ev {
		case "cachefail":
			cache.FailNext = true
		case "install":
			svc.Put("d")
			armed := cache.FailNext
			if err := st.Refresh(context.Background()); err != nil && !armed {
				return where + ": Refresh: " + err.Error(), "harness"
			}
			// whether or not the cache could be written, the new version is installed
			if _, val, _ := svc.Active("d"); string(st.Secret("d").Get()) != val {
				return where + ": the poll did not install the new version", "harness"
			}
			for _, u := range ups {
				u.pending = true
			}
		case "rollback":
			// the operator activates the previous version again; the poll installs it (a lower number)
			if !svc.Back("d") {
				continue
			}
			armed := cache.FailNext
			if err := st.Refresh(context.Background()); err != nil && !armed {
				return where + ": Refresh: " + err.Error(), "harness"
			}
			if _, val, _ := svc.Active("d"); string(st.Secret("d").Get()) != val {
				return where + ": the poll did not install the re-activated version", "harness"
			}
			for _, u := range ups {
				u.pending = true
			}
		case "failnext":
			failNext = !failNext
		case "new":
			if len(ups) >= 2 {
				continue
			}
			log := &builderLog{failNext: failNext}
			u, err := setec.NewUpdater(context.Background(), st, "d", log.build)
			if failNext {
				failNext = false
				if err == nil || u != nil {
					return where + ": NewUpdater succeeded although the builder failed", "newupdater-error"
				}
				continue
			}
			if err != nil {
				return where + ": NewUpdater: " + err.Error(), "newupdater-error"
			}
			_, val, _ := svc.Active("d")
			m := &updModel{log: log, u: u}
			if len(log.all) != 1 || log.all[0].from != val {
				return where + fmt.Sprintf(": initial value built from %q, current secret is %q", log.all[len(log.all)-1].from, val), "initial-value"
			}
			m.cur = log.all[0]
			ups = append(ups, m)
		case "get1", "get2":
			idx := 0
			if ev == "get2" {
				idx = 1
			}
			if idx >= len(ups) {
				continue
			}
			m := ups[idx]
			m.log.mu.Lock()
			m.log.failNext = failNext
			callsBefore := m.log.calls
			m.log.mu.Unlock()
			got := m.u.Get()
			_, val, _ := svc.Active("d")
			rebuilt := m.log.calls - callsBefore
			if m.pending {
				if rebuilt != 1 {
					return where + fmt.Sprintf(": an install happened since the previous Get but the builder ran %d times", rebuilt), "update-lost"
				}
				if failNext {
					failNext = false
					if got != m.cur {
						return where + ": builder failed but Get did not return the previous value", "failure-value"
					}
					if m.u.Err() == nil {
						return where + ": builder failed but Err() is nil", "failure-unreported"
					}
					m.err = true
				} else {
					nv := m.log.all[len(m.log.all)-1]
					if got != nv || nv.from != val {
						return where + fmt.Sprintf(": Get returned a value built from %q, newest installed bytes are %q", got.from, val), "stale-value"
					}
					if m.cur.closed != 1 {
						return where + fmt.Sprintf(": the replaced value was closed %d times", m.cur.closed), "close-count"
					}
					if m.u.Err() != nil {
						return where + ": Err() still set after a successful rebuild", "err-sticky"
					}
					m.cur = nv
					m.err = false
				}
				m.pending = false
			} else {
				if rebuilt != 0 {
					return where + fmt.Sprintf(": no install since the previous Get, but the builder ran %d times", rebuilt), "spurious-rebuild"
				}
				if got != m.cur {
					return where + ": Get returned a different value although nothing was installed", "value-changed"
				}
				if (m.u.Err() != nil) != m.err {
					return where + fmt.Sprintf(": Err()=%v, expected failure state %v", m.u.Err(), m.err), "err-state"
				}
			}
			if m.cur.closed != 0 {
				return where + fmt.Sprintf(": the current value has been closed %d times", m.cur.closed), "current-closed"
			}
			// every replaced value exactly once
			for _, b := range m.log.all {
				if b != m.cur && b.closed != 1 {
					return where + fmt.Sprintf(": replaced value #%d (from %q) closed %d times", b.id, b.from, b.closed), "close-count"
				}
			}
		}
	}
	return "", ""
}

func c15Sequential(env *report.Env, rep *report.Report) {
	depth := 6
	if env.Thorough() {
		depth = 8
	}
	sec := rep.Add(&report.Section{Name: fmt.Sprintf("seq-all-sequences-depth%d", depth), Engine: "seqx", Exhaustive: true, Extra: map[string]int64{},
		Rule: "every sequence over {install (server change + poll), rollback (the previous version activated again + poll), Get(u1), Get(u2), NewUpdater, toggle builder-fails-next, make the next cache write fail} up to the depth on a real Store, against a model of the level-triggered notification; non-trivial = sequences containing an install followed by a Get"})
	evs := []string{"install", "get1", "get2", "new", "failnext", "cachefail", "rollback"}
	var seq []string
	best := map[string][]string{}
	bestMsg := map[string]string{}
	var rec func()
	var idx int64
	rec = func() {
		if len(seq) > 0 {
			idx++
			if env.Mine(idx) {
				sec.Evaluations++
				sawInstall := false
				for _, e := range seq {
					if e == "install" {
						sawInstall = true
					} else if sawInstall && (e == "get1" || e == "get2") {
						sec.Nontrivial++
						break
					}
				}
				if msg, kind := c15Sequence(seq); msg != "" {
					if b, ok := best[kind]; !ok || len(seq) < len(b) {
						best[kind] = append([]string{}, seq...)
						bestMsg[kind] = msg
					}
				}
			}
		}
		if len(seq) == depth {
			return
		}
		for _, e := range evs {
			// updaters must exist before they are read: prune sequences that only differ by no-op gets
			seq = append(seq, e)
			rec()
			seq = seq[:len(seq)-1]
		}
	}
	rec()
	var kinds []string
	for k := range best {
		kinds = append(kinds, k)
	}
	sort.Strings(kinds)
	for _, k := range kinds {
		rep.Violate(sec.Name, "updater/"+k+": "+strings.Join(best[k], " "), bestMsg[k], map[string]any{"sequence": best[k]})
	}
	sec.States, sec.Transitions = sec.Evaluations, sec.Evaluations*int64(depth)
	sec.Samples = append(sec.Samples, "new install install get1 failnext install get1", "new new install get2 get1")
}

// ---------- concurrent ----------

type c15scen struct {
	name      string
	installs  int
	g1, g2    int  // number of Gets by the two getter threads on u1
	racingNew bool // a second NewUpdater racing the installs
	failNew   bool // a further NewUpdater on the same secret whose builder fails (it must not disturb the others)
}

func (c c15scen) harness() func() *sched.Harness {
	return func() *sched.Harness {
		var svc *Svc
		var st *setec.Store
		var log1, log2 *builderLog
		var u1, u2 *setec.Updater[*built]
		var mu sync.Mutex
		clk := 0
		tick := func() int { mu.Lock(); defer mu.Unlock(); clk++; return clk }
		type getRec struct {
			who                     string
			upd                     int
			begin, end              int
			val                     *built
			callsBefore, callsAfter int
		}
		type instRec struct {
			begin, end int
			ver        uint32
		}
		var gets []getRec
		var insts []instRec
		var newBegin, newEnd int
		var viol []string
		return &sched.Harness{
			Setup: func(x *sched.Exec) {
				gets, insts, viol, clk = nil, nil, nil, 0
				u2, newBegin, newEnd = nil, 0, 0
				svc = NewSvc()
				svc.Put("d")
				var err error
				st, err = setec.NewStore(context.Background(), setec.StoreConfig{Client: svc, Secrets: []string{"d"}, PollInterval: -1, Logf: func(string, ...any) {}})
				if err != nil {
					panic(err)
				}
				log1, log2 = &builderLog{seam: true}, &builderLog{seam: true}
				u1, err = setec.NewUpdater(context.Background(), st, "d", log1.build)
				if err != nil {
					panic(err)
				}
				svc.Seams = true
				x.MaxSteps = 800
				if c.installs > 0 {
					x.Go("installer", func() {
						defer x.ReportPanic()
						for i := 0; i < c.installs; i++ {
							b := tick()
							v := svc.Put("d")
							if err := st.Refresh(context.Background()); err != nil {
								x.Fail("harness: Refresh: %v", err)
							}
							mu.Lock()
							clk++
							insts = append(insts, instRec{b, clk, v})
							mu.Unlock()
						}
					})
				}
				getter := func(name string, n int) {
					x.Go(name, func() {
						defer x.ReportPanic()
						for i := 0; i < n; i++ {
							b := tick()
							log1.mu.Lock()
							cb := log1.calls
							log1.mu.Unlock()
							v := u1.Get()
							log1.mu.Lock()
							ca := log1.calls
							log1.mu.Unlock()
							e := tick()
							mu.Lock()
							gets = append(gets, getRec{name, 1, b, e, v, cb, ca})
							mu.Unlock()
						}
					})
				}
				if c.g1 > 0 {
					getter("g1", c.g1)
				}
				if c.g2 > 0 {
					getter("g2", c.g2)
				}
				if c.failNew {
					x.Go("failer", func() {
						defer x.ReportPanic()
						u, err := setec.NewUpdater(context.Background(), st, "d", func([]byte) (*built, error) {
							sched.Seam("builder(failing)")
							return nil, errors.New("this builder always fails")
						})
						if err == nil || u != nil {
							x.Fail("C15/newupdater-failing-builder: NewUpdater with a failing builder returned (%v, %v)", u, err)
						}
					})
				}
				if c.racingNew {
					x.Go("newer", func() {
						defer x.ReportPanic()
						newBegin = tick()
						var err error
						u2, err = setec.NewUpdater(context.Background(), st, "d", log2.build)
						newEnd = tick()
						if err != nil {
							x.Fail("C15/newupdater-error: %v", err)
						}
					})
				}
			},
			Teardown: func(x *sched.Exec) { svc.Seams = false },
			Final: func(x *sched.Exec) error {
				defer st.Close()
				if x.Stuck != "" {
					return nil
				}
				bad := func(format string, a ...any) { viol = append(viol, fmt.Sprintf(format, a...)) }
				sort.Slice(gets, func(i, j int) bool { return gets[i].begin < gets[j].begin })
				for _, g := range gets {
					// newest install completed before this Get began
					var floor uint32 = 1
					for _, in := range insts {
						if in.end < g.begin && in.ver > floor {
							floor = in.ver
						}
					}
					if verOf(g.val.from) < floor {
						bad("C15/stale-value: %s: Get (begun at %d) returned a value built from %q although the install of v%d had completed before it began", g.who, g.begin, g.val.from, floor)
					}
				}
				// rebuild only if an install can have notified since the previous Get of the same updater began
				for i, g := range gets {
					rebuilt := g.callsAfter > g.callsBefore
					if !rebuilt {
						continue
					}
					prevBegin := 0
					for j := 0; j < i; j++ {
						if gets[j].end < g.begin && gets[j].begin > prevBegin {
							prevBegin = gets[j].begin
						}
					}
					can := false
					for _, in := range insts {
						if in.end >= prevBegin && in.begin <= g.end {
							can = true
						}
					}
					// a concurrent Get of the other thread may be the one that rebuilt
					for j := range gets {
						if j != i && gets[j].begin <= g.end && gets[j].end >= g.begin {
							can = true
						}
					}
					if !can {
						bad("C15/spurious-rebuild: %s: the builder ran during a Get (window %d..%d) although no install overlaps the time since the previous Get began (%d)", g.who, g.begin, g.end, prevBegin)
					}
				}
				if log1.calls > 1+len(insts) {
					bad("C15/too-many-rebuilds: %d installs but the builder of one updater ran %d times", len(insts), log1.calls)
				}
				// after everything: a Get returns a value built from the newest installed bytes
				_, newest, _ := svc.Active("d")
				if v := u1.Get(); v.from != newest {
					bad("C15/update-lost: after all installs completed, Get returns a value built from %q; newest installed bytes are %q", v.from, newest)
				}
				if u2 != nil {
					var floor uint32 = 1
					for _, in := range insts {
						if in.end < newBegin && in.ver > floor {
							floor = in.ver
						}
					}
					if first := log2.all[0]; verOf(first.from) < floor {
						bad("C15/stale-initial-value: NewUpdater (begun at %d) built its initial value from %q although v%d had been installed before", newBegin, first.from, floor)
					}
					if v := u2.Get(); v.from != newest {
						bad("C15/update-lost-new-updater: an updater created while installs were in flight returns a value built from %q after all installs completed; newest installed bytes are %q (an install between its first read and its registration was missed)", v.from, newest)
					}
				}
				_ = newEnd
				for _, l := range []*builderLog{log1, log2} {
					for i, b := range l.all {
						cur := i == len(l.all)-1
						if cur && b.closed != 0 {
							bad("C15/current-closed: the current value (from %q) was closed %d times", b.from, b.closed)
						}
						if !cur && b.closed != 1 {
							bad("C15/close-count: replaced value (from %q) was closed %d times", b.from, b.closed)
						}
					}
				}
				var froms []string
				for _, g := range gets {
					froms = append(froms, g.who+"="+g.val.from)
				}
				sort.Strings(froms)
				x.Outcome = fmt.Sprintf("%s builds=%d/%d", strings.Join(froms, " "), log1.calls, log2.calls)
				if len(viol) > 0 {
					return errors.New(viol[0])
				}
				return nil
			},
		}
	}
}

func checkC15(t *testing.T, env *report.Env, rep *report.Report) {
	rep.Assumptions = []string{
		"'the value is rebuilt only if an install happened since the previous Get' is judged with overlap counting in favour of the code: a rebuild is accepted when some install's poll overlaps the time since the previous Get of that updater began",
		"concurrent part: scheduling points are the store mutex, the updater mutex, the single-flight mutex, the service seams and the builder callback (a user callback may be slow)",
	}
	scs := []c15scen{
		{name: "1 install || g1(2 Gets)", installs: 1, g1: 2},
		{name: "2 installs || g1(2 Gets) || g2(1 Get)", installs: 2, g1: 2, g2: 1},
		{name: "3 installs || g1(1 Get)", installs: 3, g1: 1},
		{name: "2 installs || NewUpdater racing || g1(1 Get)", installs: 2, g1: 1, racingNew: true},
		{name: "0 installs || g1(2 Gets) || g2(2 Gets)", installs: 0, g1: 2, g2: 2},
		{name: "1 install || NewUpdater racing", installs: 1, racingNew: true},
		{name: "1 install || NewUpdater racing || NewUpdater with a failing builder || g1(1 Get)", installs: 1, g1: 1, racingNew: true, failNew: true},
	}
	var list []hx.Scenario
	for _, c := range scs {
		list = append(list, hx.Scenario{Name: c.name, Make: c.harness()})
	}
	if hx.ReplaySched(t, env, rep, list) {
		return
	}
	c15Sequential(env, rep)
	if env.Shard == 0 {
		closerShapes(rep)
	}
	bound := 2
	if env.Thorough() {
		bound = 4
	}
	hx.ExploreScenarios(t, env, rep, "sched-installs-vs-gets-vs-newupdater", list, bound, true, nil)
	// updaters on names that have to be looked up first, racing lookups and polls
	runSched(t, env, rep, map[string]bool{"C15": true}, "sched-updater-on-looked-up-name", pick(lookupScenarios(), "S7 "), 2, 3)
	// an updater created on a cached name while the poll that would expire the name is in flight
	runSched(t, env, rep, map[string]bool{"C15": true}, "sched-updater-vs-expiring-poll", pick(lookupScenarios(), "S11 "), 2, 3)
}

// closerShapes: "a replaced value that implements io.Closer is closed exactly once" whatever the
// updater's type parameter is - a pointer type, io.Closer itself, or an application interface whose
// values happen to be closers.
type keyer interface{ Key() string }

func (b *built) Key() string { return b.from }

func closerShapes(rep *report.Report) {
	sec := rep.Add(&report.Section{Name: "closer-values-by-type-parameter", Engine: "enum", Exhaustive: true, Extra: map[string]int64{},
		Rule: "updaters with type parameter {*T, io.Closer, an application interface} whose values implement io.Closer: NewUpdater, install, Get, install, Get: each replaced value closed exactly once, the current one never; non-trivial = all"})
	run := func(kind string, get func() *built, mk func(st *setec.Store, log *builderLog) error) {
		sec.Evaluations++
		sec.Nontrivial++
		svc := NewSvc()
		svc.Put("d")
		st, err := setec.NewStore(context.Background(), setec.StoreConfig{Client: svc, Secrets: []string{"d"}, PollInterval: -1, Logf: func(string, ...any) {}})
		if err != nil {
			panic(err)
		}
		defer st.Close()
		log := &builderLog{}
		if err := mk(st, log); err != nil {
			rep.Violate(sec.Name, "closer-shape/newupdater: "+kind, kind+": NewUpdater: "+err.Error(), nil)
			return
		}
		for i := 0; i < 2; i++ {
			svc.Put("d")
			st.Refresh(context.Background())
			cur := get()
			for _, b := range log.all {
				want := 1
				if b == cur {
					want = 0
				}
				if b.closed != want {
					rep.Violate(sec.Name, "closer-shape/close-count: "+kind, fmt.Sprintf("updater with type parameter %s: after install %d and Get, value #%d (from %q) has been closed %d times, want %d", kind, i+1, b.id, b.from, b.closed, want), nil)
					return
				}
			}
		}
	}
	var up *setec.Updater[*built]
	run("*built", func() *built { return up.Get() }, func(st *setec.Store, log *builderLog) (err error) {
		up, err = setec.NewUpdater(context.Background(), st, "d", log.build)
		return
	})
	var uc *setec.Updater[io.Closer]
	run("io.Closer", func() *built { return uc.Get().(*built) }, func(st *setec.Store, log *builderLog) (err error) {
		uc, err = setec.NewUpdater(context.Background(), st, "d", func(bs []byte) (io.Closer, error) { return log.build(bs) })
		return
	})
	var uk *setec.Updater[keyer]
	run("an application interface", func() *built { return uk.Get().(*built) }, func(st *setec.Store, log *builderLog) (err error) {
		uk, err = setec.NewUpdater(context.Background(), st, "d", func(bs []byte) (keyer, error) { return log.build(bs) })
		return
	})
	sec.States, sec.Transitions = sec.Evaluations, sec.Evaluations
}
