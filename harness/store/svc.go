// Package store holds the harnesses for the client Store properties
// (C10, C11, C12, C13, C15, C16, C19).
package store

import (
	"context"
	"errors"
	"fmt"
	"sort"
	"strings"
	"sync"
	"time"

	"github.com/tailscale/setec/types/api"

	"verif/sched"
)

// Svc is the scripted secrets service.  Values are a function of (name,
// version), so a value identifies what was served.
type Svc struct {
	mu      sync.Mutex
	S       map[string]*svcSecret
	Log     []Req
	fail    map[string]int // fail the next n requests for name (sequential mode)
	inflt   map[string]int
	MaxInfl map[string]int
	// Sched mode: ask the explorer for each request's outcome.
	Outcomes     func(name string) []string // e.g. {"ok","fail","hang"}; nil = scripted by fail map
	NotFoundFail map[string]bool            // the next scripted failure for the name answers "not found" although the secret exists
	Pad          func(ver uint32) int       // if set, a version's value is preceded by this many filler bytes
	Seams        bool                       // park at a scheduler seam before answering
	Latency      time.Duration              // every request takes this long (virtual time) before it is answered
	now          func() time.Duration
	Dead         bool
	Release      chan struct{} // closed at teardown: hanging requests return
	IgnoreCtx    bool          // answer from the script even when the caller's context has ended
	CtxLikeErr   bool          // scripted failures look like a timeout that is not the caller's
	FailKind     string        // "" | "denied" | "notfound": scripted failures are refusals (wrap api.ErrAccessDenied) or not-found answers
	MaxReqs      int           // >0: panic when more requests than this arrive (runaway guard)
	// Served records every value ever handed out, per name.
	Served map[string]map[string]bool
	// History of activations, for "active at some instant during the poll".
	Act map[string][]Activation
	sq  int
}

type svcSecret struct {
	Versions map[uint32]string
	Active   uint32
	Latest   uint32
}

// Activation records that version became active at step Seq.
type Activation struct {
	Ver uint32
	Seq int
}

// Req is one request received.
type Req struct {
	Name   string
	Cond   bool
	Old    uint32
	At     time.Duration
	Result string
	Seq    int
}

func NewSvc() *Svc {
	return &Svc{Release: make(chan struct{}), S: map[string]*svcSecret{}, fail: map[string]int{}, inflt: map[string]int{}, MaxInfl: map[string]int{}, Served: map[string]map[string]bool{}, Act: map[string][]Activation{}, now: func() time.Duration { return 0 }}
}

func Value(name string, ver uint32) string { return fmt.Sprintf("%s#v%d", name, ver) }

// seq is a logical clock over service-side events (requests and activations); callers hold s.mu.
func (s *Svc) seq() int { s.sq++; return s.sq }

// Put creates a new version and activates it.
func (s *Svc) Put(name string) uint32 {
	s.mu.Lock()
	defer s.mu.Unlock()
	sec := s.S[name]
	if sec == nil {
		sec = &svcSecret{Versions: map[uint32]string{}}
		s.S[name] = sec
	}
	sec.Latest++
	sec.Versions[sec.Latest] = Value(name, sec.Latest)
	if s.Pad != nil {
		// values of varying length (the version stays recognisable as the "#v<n>" suffix)
		sec.Versions[sec.Latest] = strings.Repeat("~", s.Pad(sec.Latest)) + Value(name, sec.Latest)
	}
	sec.Active = sec.Latest
	s.Act[name] = append(s.Act[name], Activation{sec.Active, s.seq()})
	return sec.Latest
}

// PutDup is what "put a, put b, put a" does on the real service when the first value is the active
// one: two new versions, the second holding the very bytes of the version that is active now, and that
// second one activated. Two versions with equal bytes are then told apart by number only.
func (s *Svc) PutDup(name string) uint32 {
	s.mu.Lock()
	defer s.mu.Unlock()
	sec := s.S[name]
	if sec == nil {
		return 0
	}
	cur := sec.Versions[sec.Active]
	sec.Latest++
	sec.Versions[sec.Latest] = Value(name, sec.Latest)
	sec.Latest++
	sec.Versions[sec.Latest] = cur
	sec.Active = sec.Latest
	s.Act[name] = append(s.Act[name], Activation{sec.Active, s.seq()})
	return sec.Latest
}

// Back activates the previous version, if any.
func (s *Svc) Back(name string) bool {
	s.mu.Lock()
	defer s.mu.Unlock()
	sec := s.S[name]
	if sec == nil || sec.Active <= 1 {
		return false
	}
	sec.Active--
	s.Act[name] = append(s.Act[name], Activation{sec.Active, s.seq()})
	return true
}

// FailNext makes the next n requests for name fail.
func (s *Svc) FailNext(name string, n int) {
	s.mu.Lock()
	s.fail[name] += n
	s.mu.Unlock()
}

func (s *Svc) Active(name string) (uint32, string, bool) {
	s.mu.Lock()
	defer s.mu.Unlock()
	sec := s.S[name]
	if sec == nil {
		return 0, "", false
	}
	return sec.Active, sec.Versions[sec.Active], true
}

// ActiveDuring reports whether ver was the active version of name at some
// instant between logical times from and to.
func (s *Svc) ActiveDuring(name string, ver uint32, from, to int) bool {
	s.mu.Lock()
	defer s.mu.Unlock()
	acts := s.Act[name]
	for i, a := range acts {
		end := int(^uint(0) >> 1)
		if i+1 < len(acts) {
			end = acts[i+1].Seq
		}
		if a.Ver == ver && a.Seq <= to && end >= from {
			return true
		}
	}
	return false
}

// Now returns the current logical time.
func (s *Svc) NowSeq() int {
	s.mu.Lock()
	defer s.mu.Unlock()
	return s.seq()
}

var errSvc = errors.New("service error (scripted)")

// PatientKey marks the context of a caller whose requests the scripted service answers under the
// outcome "hang-unless-patient".
type PatientKey struct{}

func (s *Svc) answer(ctx context.Context, name string, cond bool, old uint32) (*api.SecretValue, error) {
	if s.Seams {
		sched.Seam("svc.request(" + name + ")")
	}
	s.mu.Lock()
	ik := name
	if cond {
		ik = "poll:" + name
	}
	s.inflt[ik]++
	if s.inflt[ik] > s.MaxInfl[ik] {
		s.MaxInfl[ik] = s.inflt[ik]
	}
	req := Req{Name: name, Cond: cond, Old: old, At: s.now(), Seq: s.seq()}
	idx := len(s.Log)
	s.Log = append(s.Log, req)
	outcome := "ok"
	if s.Dead {
		outcome = "fail"
	} else if s.fail[name] > 0 {
		s.fail[name]--
		outcome = "fail"
		if s.NotFoundFail[name] {
			outcome = "fail-notfound"
			delete(s.NotFoundFail, name)
		}
	}
	var outs []string
	if s.Outcomes != nil {
		outs = s.Outcomes(name)
	}
	s.mu.Unlock()
	if len(outs) > 1 {
		outcome = outs[sched.Choose("svc("+name+")", len(outs))]
	} else if len(outs) == 1 {
		outcome = outs[0]
	}
	if outcome == "hang-unless-patient" {
		// hang for everybody but the caller whose context carries PatientKey
		outcome = "hang"
		if ctx.Value(PatientKey{}) != nil {
			outcome = "ok"
		}
	}
	done := func(res string) {
		s.mu.Lock()
		s.inflt[ik]--
		s.Log[idx].Result = res
		s.mu.Unlock()
	}
	if s.MaxReqs > 0 && idx >= s.MaxReqs {
		panic(fmt.Sprintf("runaway: more than %d requests to the service without the virtual clock advancing past the horizon", s.MaxReqs))
	}
	if ctx.Err() != nil && !s.IgnoreCtx {
		done("ctx")
		return nil, ctx.Err()
	}
	switch outcome {
	case "fail-notfound":
		// a failure that looks like "no such secret" (a 404 from something in front of the service)
		done("fail")
		return nil, fmt.Errorf("upstream said: %w", api.ErrNotFound)
	case "fail":
		done("fail")
		if s.CtxLikeErr {
			return nil, fmt.Errorf("request timed out: %w", context.DeadlineExceeded)
		}
		switch s.FailKind {
		case "denied":
			return nil, fmt.Errorf("get %q: %w", name, api.ErrAccessDenied)
		case "notfound":
			return nil, fmt.Errorf("get %q: %w", name, api.ErrNotFound)
		}
		return nil, errSvc
	case "hang":
		select {
		case <-ctx.Done():
			done("hang-ctx")
			return nil, ctx.Err()
		case <-s.Release:
			// teardown: the harness lets every hanging request go so that all goroutines can finish
			done("hang-released")
			return nil, errSvc
		}
	}
	if s.Latency > 0 {
		// a slow answer; like a real transport, the request gives up when its own context ends first
		t := time.NewTimer(s.Latency)
		if s.IgnoreCtx {
			<-t.C
		} else {
			select {
			case <-t.C:
			case <-ctx.Done():
				t.Stop()
				done("ctx-while-slow")
				return nil, ctx.Err()
			}
		}
	}
	if s.Seams {
		sched.Seam("svc.answer(" + name + ")")
	}
	s.mu.Lock()
	defer s.mu.Unlock()
	s.inflt[ik]--
	sec := s.S[name]
	if sec == nil {
		s.Log[idx].Result = "notfound"
		return nil, api.ErrNotFound
	}
	if cond && old != 0 && sec.Active == old {
		s.Log[idx].Result = "unchanged"
		return nil, api.ErrValueNotChanged
	}
	v := sec.Versions[sec.Active]
	if s.Served[name] == nil {
		s.Served[name] = map[string]bool{}
	}
	s.Served[name][v] = true
	s.Log[idx].Result = fmt.Sprintf("v%d", sec.Active)
	return &api.SecretValue{Value: []byte(v), Version: api.SecretVersion(sec.Active)}, nil
}

func (s *Svc) Get(ctx context.Context, name string) (*api.SecretValue, error) {
	return s.answer(ctx, name, false, 0)
}

func (s *Svc) GetIfChanged(ctx context.Context, name string, old api.SecretVersion) (*api.SecretValue, error) {
	return s.answer(ctx, name, true, uint32(old))
}

// Key is a canonical rendering of the service state.
func (s *Svc) Key() string {
	s.mu.Lock()
	defer s.mu.Unlock()
	var names []string
	for n := range s.S {
		names = append(names, n)
	}
	sort.Strings(names)
	out := ""
	for _, n := range names {
		out += fmt.Sprintf("%s:a%d/l%d/f%d;", n, s.S[n].Active, s.S[n].Latest, s.fail[n])
		// versions that hold the bytes of another version (PutDup): states that differ in them have different futures
		for v := uint32(1); v <= s.S[n].Latest; v++ {
			if val := s.S[n].Versions[v]; !strings.HasSuffix(val, Value(n, v)) {
				out += fmt.Sprintf("v%d=%s;", v, val)
			}
		}
	}
	return out
}

// NReq returns the number of requests so far.
func (s *Svc) NReq() int {
	s.mu.Lock()
	defer s.mu.Unlock()
	return len(s.Log)
}

// HCache is an in-memory cache that records writes and can fail.
type HCache struct {
	mu       sync.Mutex
	Data     []byte
	Writes   [][]byte
	FailW    int // fail the k-th write (1-based)
	FailR    bool
	FailNext bool // fail the next write only
	Seams    bool // park at a scheduler seam before every write
	nw       int
}

func (c *HCache) Write(b []byte) error {
	if c.Seams {
		sched.Seam("cache.write")
	}
	c.mu.Lock()
	defer c.mu.Unlock()
	c.nw++
	if c.nw == c.FailW || c.FailNext {
		c.FailNext = false
		return errors.New("cache write failed (scripted)")
	}
	// like setec.MemCache, the cache keeps the very slice it was handed: the store must not touch it again
	c.Data = b
	c.Writes = append(c.Writes, append([]byte(nil), b...))
	return nil
}

func (c *HCache) Read() ([]byte, error) {
	c.mu.Lock()
	defer c.mu.Unlock()
	if c.FailR {
		return nil, errors.New("cache read failed (scripted)")
	}
	return append([]byte(nil), c.Data...), nil
}
