package store

import (
	"fmt"
	"os"
	"sort"
	"strings"
	"sync"
	"testing"
	"time"

	"verif/hx"
	"verif/report"
)

// treeConfigs: full history trees (no merging of histories) over a core alphabet.
func treeConfigs() []seqCfg {
	recent := epoch.Unix() - 10
	initial := fmt.Sprintf(`{"d":{"secret":{"Value":"%s","Version":1},"lastAccess":"%d"},"x":{"secret":{"Value":"%s","Version":1},"lastAccess":"%d"}}`,
		b64(Value("d", 1)), recent, b64(Value("x", 1)), recent)
	return []seqCfg{
		{Name: "tree-two-secrets-server-changes-failures-polls-restart", Expiry: 0, Declared: []string{"d"}, Names: []string{"d", "x"}, Initial: initial, NoDedup: true,
			Events: []string{"put:d", "back:d", "failnext:d", "nfnext:d", "put:x", "back:x", "nfnext:x", "poll", "restart"}},
		// the polling task's own polls (a ticker the history fires) mixed with explicit refreshes and server changes:
		// every tick is a poll of its own
		{Name: "tree-polling-task-ticks-and-refreshes", Expiry: 0, Declared: []string{"d"}, Names: []string{"d"}, Extra: []string{"x"}, Initial: initial, NoDedup: true, Poller: true,
			Events: []string{"put:d", "back:d", "poll", "tick", "restart"}},
		// service failures that look like somebody's timeout while every caller's context is live
		{Name: "tree-failures-that-look-like-timeouts", Expiry: 0, Declared: []string{"d"}, Names: []string{"d"}, Extra: []string{"x"}, Initial: initial, NoDedup: true, CtxLike: true,
			Events: []string{"put:d", "failnext:d", "failnext:x", "poll", "restart"}},
		// versions told apart by number only: "dup" makes a new active version with the bytes of the one before
		{Name: "tree-one-secret-equal-bytes-versions", Expiry: 0, Declared: []string{"d"}, Names: []string{"d"}, Extra: []string{"x"}, Initial: initial, NoDedup: true,
			Events: []string{"put:d", "dup:d", "back:d", "failnext:d", "poll", "restart"}},
	}
}

func seqConfigs() []seqCfg {
	old := epoch.Unix() - 1000
	recent := epoch.Unix() - 10
	initial := fmt.Sprintf(`{"d":{"secret":{"Value":"%s","Version":1},"lastAccess":"%d"},"u":{"secret":{"Value":"%s","Version":1},"lastAccess":"0"},"w":{"secret":{"Value":"%s","Version":1},"lastAccess":"%d"},"x":{"secret":{"Value":"%s","Version":1},"lastAccess":"%d"}}`,
		b64(Value("d", 1)), recent, b64(Value("u", 1)), b64(Value("w", 1)), old, b64(Value("x", 1)), epoch.Unix()-50)
	return []seqCfg{
		{Name: "expiry100s-empty-cache", Expiry: 100 * time.Second, Declared: []string{"d"}, Names: []string{"d", "u"}},
		{Name: "no-expiry-empty-cache", Expiry: 0, Declared: []string{"d"}, Names: []string{"d", "u"}},
		{Name: "expiry100s-initial-cache-stamps-0-old-recent", Expiry: 100 * time.Second, Declared: []string{"d"}, Names: []string{"d", "u", "x"}, Extra: []string{"w"}, Initial: initial},
		{Name: "expiry100s-running-polling-task", Expiry: 100 * time.Second, Declared: []string{"d"}, Names: []string{"d", "u"}, Poller: true},
		{Name: "no-expiry-initial-cache-stamps-0-old-recent", Expiry: 0, Declared: []string{"d"}, Names: []string{"d", "u"}, Extra: []string{"w", "x"}, Initial: initial},
	}
}

type seqFailures struct {
	mu sync.Mutex
	m  map[string][]failure
}

type failure struct {
	v    violation
	hist []string
}

func (f *seqFailures) add(v violation, hist []string) {
	f.mu.Lock()
	defer f.mu.Unlock()
	if f.m == nil {
		f.m = map[string][]failure{}
	}
	k := v.prop + "/" + v.kind
	f.m[k] = append(f.m[k], failure{v, hist})
}

func (f *seqFailures) flush(rep *report.Report, section string) {
	var keys []string
	for k := range f.m {
		keys = append(keys, k)
	}
	sort.Strings(keys)
	for _, k := range keys {
		fs := f.m[k]
		sort.Slice(fs, func(i, j int) bool {
			if len(fs[i].hist) != len(fs[j].hist) {
				return len(fs[i].hist) < len(fs[j].hist)
			}
			return strings.Join(fs[i].hist, " ") < strings.Join(fs[j].hist, " ")
		})
		x := fs[0]
		rep.Violate(section, fmt.Sprintf("%s/%s: %s", section, k, strings.Join(x.hist, " ")), fmt.Sprintf("history [%s]: %s (%d histories show this)", strings.Join(x.hist, " "), x.v.msg, len(fs)), map[string]any{"history": x.hist, "config": section})
	}
}

// pick selects scenarios by name prefix.
func pick(scs []*scen, prefixes ...string) []*scen {
	var out []*scen
	for _, sc := range scs {
		for _, p := range prefixes {
			if strings.HasPrefix(sc.Name, p) {
				out = append(out, sc)
			}
		}
	}
	return out
}

// runSeq runs the sequential store search for the given property.
func runSeq(env *report.Env, rep *report.Report, prop string, depthQuick, depthThorough int, withRestartCheck bool) {
	runSeqCfgs(env, rep, prop, depthQuick, depthThorough, withRestartCheck, seqConfigs())
	// the same alphabet as a full tree (histories never merged), one level shallower
	full := seqConfigs()[2]
	full.Name = "tree-" + full.Name
	full.NoDedup = true
	runSeqCfgs(env, rep, prop, 4, 5, false, []seqCfg{full})
}

func runSeqCfgs(env *report.Env, rep *report.Report, prop string, depthQuick, depthThorough int, withRestartCheck bool, cfgs []seqCfg) {
	depth := depthQuick
	if env.Thorough() {
		depth = depthThorough
	}
	for _, cfg := range cfgs {
		sec := rep.Add(&report.Section{Name: "seq-" + cfg.Name, Engine: "seqx", Exhaustive: true, Extra: map[string]int64{},
			Rule:  "BFS over event histories (default alphabet: server put/activate-back/fail-next, a not-found answer for the first undeclared name and, for the declared name, a new active version that repeats the bytes of the one before; Secret, read, LookupSecret per name; poll, restart-from-cache, clock +50s, clock +101s; 'tree' sections: a core alphabet with histories never merged) of a real Store with a scripted service and a virtual clock; successor = replay on a fresh Store; state = store dump + service state + cache document + clock + handle set; reference model stepped in lock-step; non-trivial = transitions into a new state",
			Bound: fmt.Sprintf("depth %d, %d events", depth, len(events(cfg)))})
		fs := &seqFailures{}
		dir := hx.Scratch("storeseq-")
		var vmu sync.Mutex
		var restarts int64
		var visit func(w *world, hist []string)
		if withRestartCheck {
			visit = func(w *world, hist []string) {
				d, _ := os.MkdirTemp(dir, "v")
				vs := restartFromCache(w, d)
				os.RemoveAll(d)
				vmu.Lock()
				restarts++
				vmu.Unlock()
				for _, v := range vs {
					fs.add(v, hist)
				}
			}
		}
		st, complete := searchSeq(cfg, depth, env.Expired, map[string]bool{prop: true}, fs.add, visit)
		os.RemoveAll(dir)
		sec.States, sec.Transitions, sec.Evaluations = st.States, st.Transitions, st.Transitions
		sec.Nontrivial = st.States - 1
		sec.Exhaustive = complete
		sec.Extra["restart_from_cache_checks"] = restarts
		for _, s := range st.Samples {
			sec.Samples = append(sec.Samples, s)
		}
		fs.flush(rep, sec.Name)
	}
}

func TestCheck(t *testing.T) {
	env := report.FromEnv()
	prop := os.Getenv("VERIF_PROPERTY")
	if prop == "" {
		prop = "C19"
	}
	rep := env.New(prop)
	defer rep.Guard(env)
	switch prop {
	case "C19":
		rep.Assumptions = []string{"expiry ages 0 and 100 s; clock steps of 50 s and 101 s; last-access stamps 0, old and recent in the initial cache", "the polling task is disabled (PollInterval<0) in the sequential search; polls are explicit Refresh calls"}
		if hx.ReplaySched(t, env, rep, mk(map[string]bool{"C19": true}, lookupScenarios()...)) {
			break
		}
		if env.Shard == 0 {
			runSeq(env, rep, "C19", 4, 7, false)
			if env.Shard == 0 {
				checkLookupsOffKeepsCache(rep)
			}
		}
		runSched(t, env, rep, map[string]bool{"C19": true}, "sched-handle-taken-while-a-poll-is-in-flight", pick(lookupScenarios(), "S4 "), 2, 3)
		runSched(t, env, rep, map[string]bool{"C19": true}, "sched-cache-writes-of-polls-and-lookups", pick(lookupScenarios(), "S2 ", "S9 ", "S12 "), 2, 3)
	case "C10":
		checkC10(t, env, rep)
	case "C11":
		rep.Assumptions = []string{"freshness is judged by version number, as the property says", "sequential part: polls are explicit Refresh calls on a store with the polling task disabled; the ticker cadence and concurrent refreshes are explored by the scheduler sections"}
		all := append(append(pollScenarios(), lookupScenarios()...), cadenceScenarios()...)
		if hx.ReplaySched(t, env, rep, mk(map[string]bool{"C11": true}, all...)) {
			break
		}
		if env.Shard == 0 {
			runSeq(env, rep, "C11", 5, 6, false)
			runSeqCfgs(env, rep, "C11", 5, 7, false, treeConfigs())
		}
		runSched(t, env, rep, map[string]bool{"C11": true}, "sched-polls-and-refreshes", pollScenarios(), 2, 3)
		runSched(t, env, rep, map[string]bool{"C11": true}, "sched-ticker-cadence-virtual-time", cadenceScenarios(), 2, 3)
		runSched(t, env, rep, map[string]bool{"C11": true}, "sched-polls-racing-lookups", pick(lookupScenarios(), "S2 ", "S9 ", "S6 "), 2, 3)
	case "C12":
		rep.Assumptions = []string{"server-side changes in the concurrent scenarios only move forward, so 'follows the order in which polls installed them' is judged as non-decreasing version numbers per reader", "absence of data races is not decided by this check (a cooperative scheduler hides them); see DESIGN.md §2.7"}
		all := append(pollScenarios(), lookupScenarios()...)
		if hx.ReplaySched(t, env, rep, mk(map[string]bool{"C12": true}, all...)) {
			break
		}
		if env.Shard == 0 {
			runSeq(env, rep, "C12", 4, 6, false)
			// a reader of the declared secret after every event: server changes forwards and backwards, failures, polls, restarts
			runSeqCfgs(env, rep, "C12", 5, 7, false, []seqCfg{{Name: "declared-secret-read-after-every-event", Expiry: 0, Declared: []string{"d"}, Names: []string{"d", "x"}, AutoRead: true,
				Events: []string{"put:d", "back:d", "failnext:d", "put:x", "poll", "restart"}}})
		}
		runSched(t, env, rep, map[string]bool{"C12": true}, "sched-readers-vs-polls-lookups-expiry-close", all, 2, 3)
	case "C15":
		checkC15(t, env, rep)
	case "C16":
		rep.Assumptions = []string{"virtual time: the five-minute safety limit and the callers' deadlines are judged on the bubble's clock; horizon 16 (21) virtual minutes", "service answers per request are explorer choices among the outcomes listed per scenario (answer / fail / hang until the request's context ends)"}
		all := append(lookupTimingScenarios(), lookupScenarios()...)
		if hx.ReplaySched(t, env, rep, mk(map[string]bool{"C16": true}, all...)) {
			break
		}
		if env.Shard == 0 {
			runSeq(env, rep, "C16", 4, 5, false)
			checkLookupDisabled(rep)
			checkLookupAnswers(rep)
		}
		// the five-thread hand-over chain is explored on its own with a smaller deviation bound (which
		// caller leads each new request is a free choice, so bound 0 already covers every leadership order)
		var rest []*scen
		for _, sc := range all {
			if !strings.HasPrefix(sc.Name, "L11 ") {
				rest = append(rest, sc)
			}
		}
		runSched(t, env, rep, map[string]bool{"C16": true}, "sched-lookups-deadlines-cancellations", rest, 2, 3)
		runSched(t, env, rep, map[string]bool{"C16": true}, "sched-hand-over-chain", pick(all, "L11 "), 0, 1)
	case "C13":
		checkC13(t, env, rep)
	default:
		t.Fatalf("unknown property %s", prop)
	}
	if err := rep.Write(env); err != nil {
		t.Fatal(err)
	}
}
