package store

import (
	"bytes"
	"context"
	"encoding/json"
	"errors"
	"fmt"
	"os"
	"path/filepath"
	"sort"
	"strings"
	"sync"
	"time"

	"github.com/tailscale/setec/client/setec"
	"github.com/tailscale/setec/types/api"

	"verif/hx"
)

// seqCfg is one configuration of the sequential store search.
type seqCfg struct {
	Name     string
	Expiry   time.Duration
	Declared []string
	Names    []string // names events may touch
	Extra    []string // names that exist on the service but get no events
	Initial  string   // initial cache document ("" = none)
	Events   []string // if set, the event alphabet (default: all events for Names)
	CtxLike  bool     // scripted service failures look like timeouts that are not the caller's
	Poller   bool     // the store runs its polling task (on a ticker that never fires), so Close goes through the task's shutdown
	AutoRead bool     // after every event, take a handle for every declared name and read it
	NoDedup  bool     // explore the full history tree: two histories are never merged, so state the
	// dump cannot see (hidden state a change may introduce) cannot hide behind an equal dump
}

var epoch = time.Date(2030, 1, 1, 0, 0, 0, 0, time.UTC)

// mEntry is the reference model's view of one name in the store.
type mEntry struct {
	Declared   bool
	Version    uint32
	Value      string
	LastAccess int64
	Handle     bool
}

// world is one replayed history.
type world struct {
	cfg     seqCfg
	svc     *Svc
	cache   *HCache
	clock   time.Time
	st      *setec.Store
	handles map[string]setec.Secret
	m       map[string]*mEntry // model of the active set
	served  map[string]map[string]bool
	viol    []violation
	lastErr string
	reads   int
	held    []heldValue // what handles have returned so far, as handed out and as a private copy
	ticker  *seqTicker  // Poller configurations: the polling task's ticker, fired by the event "tick"
}

// heldValue is a slice a handle returned, kept by the reader, and a copy of what it held then.
type heldValue struct {
	name string
	got  []byte
	was  string
}

// checkHeld: a value a handle has returned stays what it was - the store replaces values, it never
// rewrites bytes it has handed out.
func (w *world) checkHeld(after string) {
	for _, h := range w.held {
		if string(h.got) != h.was {
			w.fail("C12", "returned-bytes-rewritten", "after %s: bytes a handle for %q returned earlier (%q) now read %q", after, h.name, h.was, string(h.got))
			w.held = nil
			return
		}
	}
}

// seqTicker is a poll ticker the history fires itself; Done reports the end of the poll a tick caused.
type seqTicker struct {
	ch   chan time.Time
	done chan struct{}
}

func (t *seqTicker) Chan() <-chan time.Time { return t.ch }
func (t *seqTicker) Stop()                  {}
func (t *seqTicker) Done() {
	select {
	case t.done <- struct{}{}:
	default:
	}
}

type violation struct {
	prop string
	kind string
	msg  string
}

func (w *world) fail(prop, kind, format string, args ...any) {
	w.viol = append(w.viol, violation{prop, kind, fmt.Sprintf(format, args...)})
}

type cacheDoc map[string]*struct {
	Secret *struct {
		Value   []byte
		Version uint32
	} `json:"secret"`
	LastAccess int64 `json:"lastAccess,string"`
}

func parseCache(b []byte) (cacheDoc, error) {
	var d cacheDoc
	if len(b) == 0 {
		return cacheDoc{}, nil
	}
	if err := json.Unmarshal(b, &d); err != nil {
		return nil, err
	}
	return d, nil
}

func (w *world) now() int64 { return w.clock.Unix() }

func (w *world) newStore() error {
	sc := setec.StoreConfig{
		Client: w.svc, Secrets: append([]string(nil), w.cfg.Declared...), AllowLookup: true, Cache: w.cache,
		PollInterval: -1, ExpiryAge: w.cfg.Expiry, Logf: func(string, ...any) {}, TimeNow: func() time.Time { return w.clock },
	}
	if w.cfg.Poller {
		sc.PollInterval = 0
		w.ticker = &seqTicker{ch: make(chan time.Time), done: make(chan struct{}, 1)}
		sc.PollTicker = w.ticker
	}
	st, err := setec.NewStore(context.Background(), sc)
	if err != nil {
		return err
	}
	w.st = st
	w.handles = map[string]setec.Secret{}
	return nil
}

func (w *world) noteServed(name, v string) {
	if w.served[name] == nil {
		w.served[name] = map[string]bool{}
	}
	w.served[name][v] = true
}

// start builds the world in its initial state.
func startWorld(cfg seqCfg) *world {
	w := &world{cfg: cfg, svc: NewSvc(), cache: &HCache{}, clock: epoch, m: map[string]*mEntry{}, served: map[string]map[string]bool{}}
	w.svc.CtxLikeErr = cfg.CtxLike
	for _, n := range cfg.Names {
		w.svc.Put(n)
	}
	for _, n := range cfg.Extra {
		w.svc.Put(n)
	}
	if cfg.Initial != "" {
		w.cache.Data = []byte(cfg.Initial)
		doc, _ := parseCache(w.cache.Data)
		for n, e := range doc {
			w.m[n] = &mEntry{Version: e.Secret.Version, Value: string(e.Secret.Value), LastAccess: e.LastAccess}
			w.noteServed(n, string(e.Secret.Value))
		}
	}
	if err := w.newStore(); err != nil {
		w.fail("C10", "initial-newstore", "NewStore failed: %v", err)
		return w
	}
	w.afterStart()
	return w
}

// afterStart updates the model for a (re)start that has just completed.
func (w *world) afterStart() {
	for _, n := range w.cfg.Declared {
		e := w.m[n]
		if e == nil {
			ver, val, _ := w.svc.Active(n)
			e = &mEntry{Version: ver, Value: val, LastAccess: w.now()}
			w.m[n] = e
			w.noteServed(n, val)
		}
		e.Declared = true
	}
	for _, e := range w.m {
		e.Handle = false
	}
	w.compare("after start")
}

// compare checks the store's active set against the model (C11/C12/C19 share this).
func (w *world) compare(when string) {
	if w.st == nil {
		return
	}
	d := w.st.VerifDump()
	for n, e := range w.m {
		g, ok := d[n]
		if !ok {
			w.fail("C19", "dropped", "%s: %q is missing from the store; the model keeps it (declared=%v handle=%v lastAccess=%d now=%d age=%v)", when, n, e.Declared, e.Handle, e.LastAccess, w.now(), w.cfg.Expiry)
			continue
		}
		if g.Version != e.Version || g.Value != e.Value {
			w.fail("C11", "value", "%s: store holds %q v%d %q, model v%d %q", when, n, g.Version, g.Value, e.Version, e.Value)
		}
		if g.LastAccess != e.LastAccess {
			w.fail("C19", "last-access", "%s: %q last-access %d, model %d", when, n, g.LastAccess, e.LastAccess)
		}
		if g.Declared != e.Declared {
			w.fail("C19", "declared-flag", "%s: %q declared=%v, model %v", when, n, g.Declared, e.Declared)
		}
	}
	for n := range d {
		if _, ok := w.m[n]; !ok {
			w.fail("C19", "not-dropped", "%s: %q is still in the store; the model dropped it", when, n)
		}
	}
}

// checkCache verifies that the cache document is complete for the model state (C13).
func (w *world) checkCache(when string, mustBeCurrent bool) {
	doc, err := parseCache(w.cache.Data)
	if err != nil {
		w.fail("C13", "cache-unparsable", "%s: cache document does not parse: %v", when, err)
		return
	}
	if !mustBeCurrent {
		return
	}
	d := w.st.VerifDump()
	for n, e := range d {
		c, ok := doc[n]
		if !ok || c.Secret == nil {
			w.fail("C13", "cache-missing", "%s: cache lacks %q (document %s)", when, n, w.cache.Data)
			continue
		}
		if c.Secret.Version != e.Version || string(c.Secret.Value) != e.Value {
			w.fail("C13", "cache-stale", "%s: cache holds %q v%d %q, store has v%d %q", when, n, c.Secret.Version, c.Secret.Value, e.Version, e.Value)
		}
		if c.LastAccess != e.LastAccess {
			w.fail("C19", "cache-last-access", "%s: cache holds last-access %d for %q, store has %d", when, c.LastAccess, n, e.LastAccess)
		}
	}
	for n := range doc {
		if _, ok := d[n]; !ok {
			w.fail("C19", "cache-keeps-dropped", "%s: cache still lists dropped secret %q", when, n)
		}
	}
}

func (w *world) expired(e *mEntry) bool {
	if e.Declared || w.cfg.Expiry <= 0 {
		return false
	}
	if e.LastAccess == 0 {
		return true
	}
	return w.clock.Sub(time.Unix(e.LastAccess, 0)) > w.cfg.Expiry
}

// step applies one event.
func (w *world) step(ev string) {
	w.step1(ev)
	w.checkHeld(ev)
	if kind, _, _ := strings.Cut(ev, ":"); w.cfg.AutoRead && w.st != nil && kind != "secret" && kind != "read" {
		for _, n := range w.cfg.Declared {
			w.step1("secret:" + n)
			w.step1("read:" + n)
		}
	}
}

func (w *world) step1(ev string) {
	if w.st == nil {
		return
	}
	kind, name, _ := strings.Cut(ev, ":")
	ctx := context.Background()
	switch kind {
	case "put":
		w.svc.Put(name)
	case "back":
		w.svc.Back(name)
	case "dup":
		w.svc.PutDup(name)
	case "failnext":
		w.svc.FailNext(name, 1)
	case "nfnext":
		// the next request for the name fails with an error that says "not found"
		w.svc.FailNext(name, 1)
		if w.svc.NotFoundFail == nil {
			w.svc.NotFoundFail = map[string]bool{}
		}
		w.svc.NotFoundFail[name] = true
	case "clock":
		switch name {
		case "half":
			w.clock = w.clock.Add(50 * time.Second)
		default:
			w.clock = w.clock.Add(101 * time.Second)
		}
	case "secret":
		h := w.st.Secret(name)
		e := w.m[name]
		if (h != nil) != (e != nil) {
			w.fail("C16", "secret-known", "Secret(%q) nil=%v but model present=%v", name, h == nil, e != nil)
		}
		if h != nil {
			w.handles[name] = h
			e.Handle = true
		}
	case "read":
		h := w.handles[name]
		if h == nil {
			return
		}
		raw := h.Get()
		got := string(raw)
		if len(w.held) < 8 {
			w.held = append(w.held, heldValue{name, raw, got})
		}
		w.reads++
		e := w.m[name]
		if e == nil {
			w.fail("C12", "read-dropped", "handle for %q read %q but the model dropped the name", name, got)
			return
		}
		if got != e.Value {
			// which value is current is C11's business; for C12 a declared secret must follow the polls
			w.fail("C11", "read-value", "handle for %q returned %q, model %q", name, got, e.Value)
			if e.Declared {
				w.fail("C12", "read-value", "handle for declared %q returned %q after polls installed %q", name, got, e.Value)
			}
		}
		if !w.served[name][got] {
			w.fail("C12", "read-unserved", "handle for %q returned %q which the service never served for it", name, got)
		}
		e.LastAccess = w.now()
	case "lookup":
		before := w.svc.NReq()
		willFail := w.svc.fail[name] > 0
		h, err := w.st.LookupSecret(ctx, name)
		e := w.m[name]
		sent := w.svc.NReq() - before
		switch {
		case e != nil:
			if err != nil || h == nil || sent != 0 {
				w.fail("C16", "lookup-known", "LookupSecret(%q) of a known name: err=%v requests=%d", name, err, sent)
			} else {
				w.handles[name] = h
				e.Handle = true
			}
		case willFail:
			if err == nil || sent != 1 {
				w.fail("C16", "lookup-failed", "failed lookup of %q: err=%v requests=%d (want an error after exactly one request)", name, err, sent)
			}
			if w.st.Secret(name) != nil {
				w.fail("C16", "lookup-failed-installed", "failed lookup of %q installed something", name)
			}
		default:
			if err != nil || h == nil || sent != 1 {
				w.fail("C16", "lookup-ok", "LookupSecret(%q): err=%v requests=%d", name, err, sent)
				return
			}
			ver, val, _ := w.svc.Active(name)
			w.m[name] = &mEntry{Version: ver, Value: val, LastAccess: w.now(), Handle: true}
			w.noteServed(name, val)
			w.handles[name] = h
			w.compare("after lookup")
			w.checkCache("after lookup", true)
		}
	case "updfail":
		// NewUpdater whose builder fails, on a name for which a handle has already been handed out: the
		// call must report the error and must leave the name as pinned as it was. (On other names the
		// event is disabled: whether the failed attempt pins the name is not fixed by any statement.)
		e := w.m[name]
		if e == nil || !e.Handle {
			return
		}
		u, err := setec.NewUpdater(ctx, w.st, name, func([]byte) (string, error) { return "", errors.New("builder fails") })
		if err == nil || u != nil {
			w.fail("C15", "newupdater-failing-builder", "NewUpdater(%q) with a failing builder returned (%v, %v)", name, u, err)
		}
		e.LastAccess = w.now() // the builder was handed the current bytes: a read
	case "poll", "tick":
		if kind == "tick" && w.ticker == nil {
			return
		}
		// which requests will fail?
		willFail := false
		var polled []string
		for n, e := range w.m {
			if w.expired(e) && !e.Handle {
				continue // about to be dropped; not requested
			}
			polled = append(polled, n)
		}
		sort.Strings(polled)
		for _, n := range polled {
			if w.svc.fail[n] > 0 && !(w.expired(w.m[n])) {
				willFail = true
			}
		}
		before := w.svc.NReq()
		var err error
		if kind == "tick" {
			// the polling task's own poll: fire the ticker and wait until the task reports the poll done
			select {
			case <-w.ticker.done:
			default:
			}
			select {
			case w.ticker.ch <- w.clock:
			case <-time.After(10 * time.Second):
				w.fail("C11", "tick-not-taken", "the polling task did not take a tick within 10 s (real time)")
				return
			}
			select {
			case <-w.ticker.done:
			case <-time.After(10 * time.Second):
				w.fail("C11", "tick-never-done", "the polling task took a tick and did not report the poll done within 10 s (real time)")
				return
			}
			if willFail {
				w.compare("after failed background poll")
				return
			}
		} else {
			err = w.st.Refresh(ctx)
		}
		reqs := w.svc.Log[before:]
		if willFail {
			if err == nil {
				w.fail("C11", "poll-error-swallowed", "a request of the poll failed but Refresh reported success")
			}
			// nothing may change
			w.compare("after failed poll")
			return
		}
		if err != nil {
			// a failure on a name the model thinks is not polled (e.g. pinned expired): treat per implementation
			w.lastErr = err.Error()
			w.compare("after failed poll")
			return
		}
		changed := false
		for n, e := range w.m {
			if w.expired(e) && !e.Handle {
				delete(w.m, n)
				changed = true
				continue
			}
			ver, val, _ := w.svc.Active(n)
			if e.Version != ver {
				e.Version, e.Value = ver, val
				w.noteServed(n, val)
				changed = true
			}
		}
		w.compare("after successful poll")
		w.checkCache("after successful poll", changed)
		// coalescing / request discipline: at most one request per polled name
		cnt := map[string]int{}
		for _, r := range reqs {
			cnt[r.Name]++
		}
		for n, c := range cnt {
			if c > 1 {
				w.fail("C11", "poll-duplicate-request", "poll sent %d requests for %q", c, n)
			}
		}
		if kind == "tick" {
			// one poll per interval: a tick is not skipped because somebody refreshed earlier
			for _, n := range polled {
				if cnt[n] == 0 {
					w.fail("C11", "tick-without-poll", "the polling task reported a tick's poll done without asking the service about %q", n)
				}
			}
		}
	case "restart":
		w.st.Close()
		// handles outlive the store: after Close each still yields its last value, without a panic
		var hn []string
		for n := range w.handles {
			hn = append(hn, n)
		}
		sort.Strings(hn)
		for _, n := range hn {
			var got string
			var pan any
			func() {
				defer func() { pan = recover() }()
				got = string(w.handles[n].Get())
			}()
			if pan != nil {
				w.fail("C12", "handle-after-close-panics", "the handle for %q panicked when called after Close: %v", n, pan)
			} else if e := w.m[n]; e != nil && got != e.Value {
				w.fail("C12", "handle-after-close-value", "after Close the handle for %q returned %q; the store's last value was %q", n, got, e.Value)
			}
		}
		// the model restarts from what the cache document holds
		doc, err := parseCache(w.cache.Data)
		if err != nil {
			w.fail("C13", "cache-unparsable", "cache document does not parse at restart: %v", err)
			return
		}
		nm := map[string]*mEntry{}
		for n, c := range doc {
			if c.Secret == nil {
				continue
			}
			nm[n] = &mEntry{Version: c.Secret.Version, Value: string(c.Secret.Value), LastAccess: c.LastAccess}
			w.noteServed(n, string(c.Secret.Value))
		}
		// the cache must have been complete: every name the store knew, with its value
		for n, e := range w.m {
			c := nm[n]
			if c == nil {
				w.fail("C13", "restart-loses", "restart: %q (v%d) was known to the store but is not in its cache", n, e.Version)
			} else if c.Version != e.Version || c.Value != e.Value {
				w.fail("C13", "restart-stale", "restart: cache has %q v%d, the store had v%d", n, c.Version, e.Version)
			} else if w.cfg.Poller && c.LastAccess != e.LastAccess {
				// the polling task rewrites the cache when it shuts down, so reads since the last install are not forgotten
				w.fail("C19", "stamp-not-persisted-at-shutdown", "restart: the cache written at shutdown holds last-access %d for %q; the store had %d", c.LastAccess, n, e.LastAccess)
				w.fail("C13", "stamp-not-persisted-at-shutdown", "restart: the cache written at shutdown holds last-access %d for %q; the store had %d", c.LastAccess, n, e.LastAccess)
			}
		}
		w.m = nm
		w.st = nil
		if err := w.newStore(); err != nil {
			w.fail("C10", "restart-newstore", "NewStore from the store's own cache failed: %v", err)
			return
		}
		w.afterStart()
	}
}

// key is the canonical state.
func (w *world) key() string {
	if w.st == nil {
		return "dead"
	}
	d := w.st.VerifDump()
	b, _ := json.Marshal(d)
	var hs []string
	for n := range w.handles {
		hs = append(hs, n)
	}
	sort.Strings(hs)
	return string(b) + "|" + w.svc.Key() + "|" + string(w.cache.Data) + "|" + fmt.Sprint(w.clock.Unix()-epoch.Unix()) + "|" + strings.Join(hs, ",")
}

func (w *world) close() {
	if w.st != nil {
		w.st.Close()
	}
}

func replay(cfg seqCfg, hist []string) *world {
	w := startWorld(cfg)
	for _, ev := range hist {
		w.step(ev)
	}
	return w
}

func events(cfg seqCfg) []string {
	if cfg.Events != nil {
		return cfg.Events
	}
	var out []string
	for _, n := range cfg.Names {
		out = append(out, "put:"+n, "back:"+n, "failnext:"+n, "secret:"+n, "read:"+n, "lookup:"+n)
	}
	if len(cfg.Declared) > 0 {
		out = append(out, "dup:"+cfg.Declared[0])
	}
	// a not-found answer for a name that is not declared (deleted on the service, or a proxy's 404)
	for _, n := range cfg.Names {
		declared := false
		for _, d := range cfg.Declared {
			declared = declared || d == n
		}
		if !declared {
			out = append(out, "nfnext:"+n)
			break
		}
	}
	for _, n := range cfg.Names {
		out = append(out, "updfail:"+n)
	}
	out = append(out, "poll", "restart", "clock:half", "clock:age")
	return out
}

type seqStats struct {
	States, Transitions int64
	Samples             []string
}

// searchSeq runs the BFS and reports violations of the given property prefix
// through fail; each state additionally goes through visit (C13 restart-from-cache checks).
func searchSeq(cfg seqCfg, depth int, deadline func() bool, props map[string]bool, report func(v violation, hist []string), visit func(w *world, hist []string)) (st seqStats, complete bool) {
	type node struct{ hist []string }
	seen := map[string]bool{}
	w0 := replay(cfg, nil)
	seen[w0.key()] = true
	for _, v := range w0.viol {
		if props[v.prop] {
			report(v, nil)
		}
	}
	w0.close()
	frontier := []node{{}}
	evs := events(cfg)
	complete = true
	var mu sync.Mutex
	for lvl := 0; lvl < depth && len(frontier) > 0; lvl++ {
		var next []node
		var wg sync.WaitGroup
		ch := make(chan node)
		for wk := 0; wk < 16; wk++ {
			wg.Add(1)
			go func() {
				defer wg.Done()
				for nd := range ch {
					if deadline() {
						mu.Lock()
						complete = false
						mu.Unlock()
						continue
					}
					for _, ev := range evs {
						h := append(append([]string{}, nd.hist...), ev)
						w := replay(cfg, h)
						k := w.key()
						mu.Lock()
						st.Transitions++
						isNew := !seen[k] || cfg.NoDedup
						if isNew {
							seen[k] = true
							next = append(next, node{h})
							if len(st.Samples) < 3 && len(h) == depth {
								st.Samples = append(st.Samples, strings.Join(h, " "))
							}
						}
						bad := false
						for _, v := range w.viol {
							if props[v.prop] {
								report(v, h)
								bad = true
							}
						}
						if bad && isNew {
							next = next[:len(next)-1] // do not expand states reached through a violation
						}
						mu.Unlock()
						if isNew && visit != nil && !bad {
							visit(w, h)
						}
						w.close()
					}
				}
			}()
		}
		for _, nd := range frontier {
			ch <- nd
		}
		close(ch)
		wg.Wait()
		sort.Slice(next, func(i, j int) bool { return strings.Join(next[i].hist, " ") < strings.Join(next[j].hist, " ") })
		frontier = next
	}
	st.States = int64(len(seen))
	if cfg.NoDedup {
		st.States = st.Transitions + 1
	}
	return st, complete
}

// restartFromCache: a new store started from the cache with the service
// unreachable serves exactly the store's values, and the same document is
// accepted by the file-backed client with identical results (C13a).
func restartFromCache(w *world, dir string) []violation {
	var out []violation
	if w.st == nil {
		return nil
	}
	doc := w.cache.Data
	dead := &Svc{Dead: true, Release: make(chan struct{}), S: map[string]*svcSecret{}, fail: map[string]int{}, inflt: map[string]int{}, MaxInfl: map[string]int{}, Served: map[string]map[string]bool{}, Act: map[string][]Activation{}, now: func() time.Duration { return 0 }}
	ctx, cancel := context.WithCancel(context.Background())
	cancel() // with the service unreachable nothing can be fetched anyway; fail at once instead of retrying in real time
	st2, err := setec.NewStore(ctx, setec.StoreConfig{Client: dead, Secrets: append([]string(nil), w.cfg.Declared...), AllowLookup: true, Cache: &HCache{Data: append([]byte(nil), doc...)}, PollInterval: -1, Logf: func(string, ...any) {}, TimeNow: func() time.Time { return w.clock }})
	if err != nil {
		return []violation{{"C13", "restart-from-cache-fails", fmt.Sprintf("a store started from the cache %s with the service unreachable fails: %v", doc, err)}}
	}
	defer st2.Close()
	actual := w.st.VerifDump()
	for n, e := range actual {
		h := st2.Secret(n)
		if h == nil {
			out = append(out, violation{"C13", "restart-from-cache-missing", fmt.Sprintf("store restarted from the cache does not know %q", n)})
			continue
		}
		if got := string(h.Get()); got != e.Value {
			out = append(out, violation{"C13", "restart-from-cache-value", fmt.Sprintf("store restarted from the cache serves %q for %q, the store served %q", got, n, e.Value)})
		}
	}
	if len(dead.Log) != 0 {
		out = append(out, violation{"C13", "restart-from-cache-requests", fmt.Sprintf("store restarted from a complete cache sent %d requests", len(dead.Log))})
	}
	// file-backed client on the same bytes
	p := filepath.Join(dir, "cache.json")
	os.WriteFile(p, doc, 0o600)
	fc, err := setec.NewFileClient(p)
	if err != nil {
		return append(out, violation{"C13", "fileclient-rejects-cache", fmt.Sprintf("NewFileClient rejects the cache document %s: %v", doc, err)})
	}
	for n, e := range actual {
		if e.Value == "" {
			continue
		}
		sv, err := fc.Get(context.Background(), n)
		if err != nil || !bytes.Equal(sv.Value, []byte(e.Value)) || sv.Version != api.SecretVersion(e.Version) {
			out = append(out, violation{"C13", "fileclient-differs", fmt.Sprintf("FileClient on the cache: %q = %v err=%v, store has v%d %q", n, sv, err, e.Version, e.Value)})
		}
	}
	return out
}

var _ = hx.Scratch
