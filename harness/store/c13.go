package store

import (
	"bytes"
	"context"
	"encoding/base64"
	"encoding/json"
	"errors"
	"fmt"
	"github.com/tailscale/setec/types/api"
	"os"
	"path/filepath"
	"strconv"
	"strings"
	"sync"
	"sync/atomic"
	"testing"
	"time"

	"github.com/tailscale/setec/client/setec"

	"verif/fsx"
	"verif/hx"
	"verif/report"
	"verif/shim/vos"
)

// wellFormed is the independent structural validator of the documented cache
// shape: a JSON object whose every member has a non-empty name and is an object
// with a "secret" object whose "Version", when present, is a non-negative
// integer and whose "Value", when present, is base64; "lastAccess", when present, is a string
// holding an integer.  Unknown extra members are tolerated.
func wellFormed(doc []byte) bool {
	dec := json.NewDecoder(bytes.NewReader(doc))
	dec.UseNumber()
	var v any
	if err := dec.Decode(&v); err != nil {
		return false
	}
	if dec.More() {
		return false
	}
	var extra any
	if err := dec.Decode(&extra); err == nil {
		return false
	}
	top, ok := v.(map[string]any)
	if !ok {
		return false
	}
	for name, e := range top {
		if name == "" {
			return false
		}
		ent, ok := e.(map[string]any)
		if !ok {
			return false
		}
		sec, ok := ent["secret"].(map[string]any)
		if !ok {
			return false
		}
		switch ver := sec["Version"].(type) {
		case nil:
			// absent (or null): tolerated, like unknown extra members
		case json.Number:
			if n, err := strconv.ParseUint(ver.String(), 10, 32); err != nil || n > 1<<32-1 {
				return false
			}
		default:
			return false
		}
		switch val := sec["Value"].(type) {
		case nil:
		case string:
			if _, err := base64.StdEncoding.DecodeString(val); err != nil {
				return false
			}
		default:
			return false
		}
		switch la := ent["lastAccess"].(type) {
		case nil:
			if _, present := ent["lastAccess"]; present {
				return false
			}
		case string:
			if _, err := strconv.ParseInt(la, 10, 64); err != nil {
				return false
			}
		default:
			return false
		}
	}
	return true
}

const validSecretObj = `{"Value":"Y2FjaGVk","Version":1}`
const validEntry = `{"secret":{"Value":"Y2FjaGVk","Version":1},"lastAccess":"5"}`

var cacheTokens = []string{"{", "}", "[", "]", ",", ":", "null", `"a"`, `"secret"`, `"lastAccess"`, `"5"`, "1", validSecretObj, validEntry}

// tryCache starts a store on the given cache contents with a healthy service.
func tryCache(doc []byte) (msg, kind string) {
	svc := NewSvc()
	svc.Put("a")
	svc.Put("a") // v2 is active; the cache (if used) holds v1 "cached"
	var st *setec.Store
	var err error
	var pan any
	func() {
		defer func() { pan = recover() }()
		st, err = setec.NewStore(context.Background(), setec.StoreConfig{Client: svc, Secrets: []string{"a"}, AllowLookup: true, Cache: &HCache{Data: doc}, PollInterval: -1, Logf: func(string, ...any) {}})
	}()
	if pan != nil {
		return fmt.Sprintf("NewStore panics: %v", pan), "panic"
	}
	if err != nil {
		return fmt.Sprintf("NewStore fails although the service is healthy: %v", err), "failed-start"
	}
	defer st.Close()
	got := string(st.Secret("a").Get())
	if !wellFormed(doc) {
		if len(svc.Log) != 1 || got != Value("a", 2) {
			return fmt.Sprintf("the cache is not a well-formed document but was not ignored as a whole: %d requests, Secret(a)=%q (service has %q)", len(svc.Log), got, Value("a", 2)), "malformed-not-ignored"
		}
		d := st.VerifDump()
		if len(d) != 1 {
			return fmt.Sprintf("the cache is not a well-formed document but %d names from it are in the store", len(d)-1), "malformed-partly-used"
		}
		return "", ""
	}
	// what the document itself holds for "a" (if anything)
	cached, has := "", false
	var generic map[string]struct {
		Secret *struct{ Value []byte } `json:"secret"`
	}
	if json.Unmarshal(doc, &generic) == nil {
		if e, ok := generic["a"]; ok && e.Secret != nil {
			cached, has = string(e.Secret.Value), true
		}
	}
	if !(has && got == cached) && got != Value("a", 2) {
		return fmt.Sprintf("Secret(a)=%q is neither the document's value for it (%q, present=%v) nor the service's", got, cached, has), "value"
	}
	return "", ""
}

func checkC13(t *testing.T, env *report.Env, rep *report.Report) {
	rep.Assumptions = []string{
		"'well-formed document of the documented shape' is decided by an independent structural validator (generic JSON decode + shape check); where the store is more lenient than the validator but the validator accepts (extra members, duplicate keys) nothing is demanded",
		"crash model for the file cache as for C04: issued calls took effect, unsynced data may vanish, renames persist",
	}
	all := append(pollScenarios(), lookupScenarios()...)
	if hx.ReplaySched(t, env, rep, mk(map[string]bool{"C13": true}, all...)) {
		return
	}
	if env.Shard == 0 {
		runSeq(env, rep, "C13", 4, 5, true)
	}
	// concurrent installs: lookups and polls racing, with the cache's Write as a scheduling point
	runSched(t, env, rep, map[string]bool{"C13": true}, "sched-cache-writes-of-concurrent-installs", append(lookupScenarios()[0:1], append(lookupScenarios()[3:], pollScenarios()[0])...), 2, 3)
	// (c) malformed contents
	n := 5
	if env.Thorough() {
		n = 6
	}
	sec := rep.Add(&report.Section{Name: fmt.Sprintf("malformed-cache-token-sequences-len%d", n), Engine: "enum", Exhaustive: true, Extra: map[string]int64{},
		Rule: "every token sequence up to the length bound over {{ } [ ] , : null \"a\" \"secret\" \"lastAccess\" \"5\" 1 <valid secret object> <valid entry>}, every prefix of two valid documents and every single-byte substitution (from 7 bytes) in a valid document, as start-up cache contents of a real Store with a healthy service; non-trivial = documents that parse as JSON"})
	var docs [][]byte
	var gen func(cur []string)
	gen = func(cur []string) {
		docs = append(docs, []byte(strings.Join(cur, "")))
		if len(cur) == n {
			return
		}
		for _, tk := range cacheTokens {
			gen(append(cur, tk))
		}
	}
	gen(nil)
	valid1 := `{"a":` + validEntry + `,"zz":{"secret":{"Value":"","Version":7},"lastAccess":"0"}}`
	valid2 := `{"a":{"secret":{"Value":"Y2FjaGVk","Version":1}}}`
	for _, v := range []string{valid1, valid2} {
		for i := 0; i <= len(v); i++ {
			docs = append(docs, []byte(v[:i]))
		}
		for i := 0; i < len(v); i++ {
			for _, b := range []byte{'{', '}', '"', ':', '0', 'x', ' '} {
				if v[i] != b {
					m := []byte(v)
					m[i] = b
					docs = append(docs, m)
				}
			}
		}
	}
	docs = append(docs, []byte("null"), []byte(" null "), []byte("\x00"), []byte("{}"), []byte(`{"a":null}`), []byte(`{"":`+validEntry+`}`), []byte(`{"a":{"secret":null}}`), []byte(`{"a":{"secret":{"Value":"Y2FjaGVk","Version":1},"lastAccess":5}}`))
	var mu sync.Mutex
	best := map[string]string{}
	bestDoc := map[string][]byte{}
	var evals, nontriv atomic.Int64
	var wg sync.WaitGroup
	for w := 0; w < 16; w++ {
		wg.Add(1)
		go func(w int) {
			defer wg.Done()
			for i := w; i < len(docs); i += 16 {
				if !env.Mine(int64(i / 16)) {
					continue
				}
				d := docs[i]
				evals.Add(1)
				if json.Valid(d) {
					nontriv.Add(1)
				}
				if msg, kind := tryCache(d); msg != "" {
					mu.Lock()
					if old, ok := bestDoc[kind]; !ok || len(d) < len(old) || (len(d) == len(old) && string(d) < string(old)) {
						best[kind], bestDoc[kind] = msg, d
					}
					mu.Unlock()
				}
			}
		}(w)
	}
	wg.Wait()
	for k, msg := range best {
		rep.Violate(sec.Name, fmt.Sprintf("cache-contents/%s: %q", k, report.Clip(string(bestDoc[k]), 80)), fmt.Sprintf("cache contents %q: %s", report.Clip(string(bestDoc[k]), 200), msg), map[string]any{"doc": string(bestDoc[k])})
	}
	sec.Evaluations, sec.Nontrivial, sec.States, sec.Transitions = evals.Load(), nontriv.Load(), evals.Load(), evals.Load()
	sec.Samples = append(sec.Samples, `{"a":`+validEntry+`}`, `{"a":[`, `null`)
	if env.Shard != 0 {
		return
	}
	fileCacheCrashes(rep)
	cacheFailures(rep)
	ownCacheValues(rep)
	failedStart(rep)
	shutdownFlush(rep)
}

// shutdownFlush: when the poller shuts down the cache is rewritten as one complete document,
// so last-access stamps of reads since the last install survive a restart.
func shutdownFlush(rep *report.Report) {
	sec := rep.Add(&report.Section{Name: "poller-shutdown-flush", Engine: "enum", Exhaustive: true, Extra: map[string]int64{},
		Rule: "stores with a running poller (harness ticker): {read / lookup+read / nothing / an install whose cache write fails} then Close; the cache document after Close must hold every known secret with its current version, bytes and last-access stamp; non-trivial = runs with a read after the last install"})
	for _, withLookup := range []bool{false, true} {
		for _, reads := range []int{0, 1, 2, -1, -2} {
			// reads < 0: no reads, but the cache write of the (-reads)-th install fails; the shutdown flush must repair it
			clock := epoch
			svc := NewSvc()
			svc.Put("d")
			svc.Put("u")
			c := &HCache{}
			if reads < 0 {
				c.FailW = -reads
			}
			st, err := setec.NewStore(context.Background(), setec.StoreConfig{Client: svc, Secrets: []string{"d"}, AllowLookup: true, Cache: c,
				PollTicker: &hTicker{ch: make(chan time.Time)}, Logf: func(string, ...any) {}, TimeNow: func() time.Time { return clock }})
			if err != nil {
				panic(err)
			}
			desc := fmt.Sprintf("lookup=%v reads=%d", withLookup, reads)
			sec.Evaluations++
			names := []string{"d"}
			if withLookup {
				clock = clock.Add(10 * time.Second)
				if _, err := st.LookupSecret(context.Background(), "u"); err != nil {
					panic(err)
				}
				names = append(names, "u")
			}
			if reads < 0 {
				// one more install through a poll, whose write fails when FailW points at it
				svc.Put("d")
				st.Refresh(context.Background())
			}
			for i := 0; i < reads; i++ {
				clock = clock.Add(7 * time.Second)
				for _, n := range names {
					st.Secret(n).Get()
				}
			}
			if reads > 0 {
				sec.Nontrivial++
			}
			want := st.VerifDump()
			st.Close()
			doc, perr := parseCache(c.Data)
			if perr != nil {
				rep.Violate(sec.Name, "shutdown-flush/unparsable: "+desc, desc+": "+perr.Error(), nil)
				continue
			}
			for n, g := range want {
				e := doc[n]
				if e == nil || e.Secret == nil || e.Secret.Version != g.Version || string(e.Secret.Value) != g.Value {
					rep.Violate(sec.Name, "shutdown-flush/incomplete: "+desc, fmt.Sprintf("%s: after Close the cache lacks the current value of %q", desc, n), nil)
				} else if e.LastAccess != g.LastAccess {
					rep.Violate(sec.Name, "shutdown-flush/last-access: "+desc, fmt.Sprintf("%s: after Close the cache holds last-access %d for %q; the store had %d (the document was not rewritten when the poller shut down)", desc, e.LastAccess, n, g.LastAccess), nil)
				}
			}
			sec.Samples = append(sec.Samples, desc)
		}
	}
	sec.States, sec.Transitions = sec.Evaluations, sec.Evaluations
}

// fileCacheCrashes: (b) every crash point and fault of FileCache.Write.
func fileCacheCrashes(rep *report.Report) {
	sec := rep.Add(&report.Section{Name: "file-cache-crash-and-fault-points", Engine: "fsx", Exhaustive: true, Extra: map[string]int64{},
		Rule: "FileCache.Write from pre-states {no file, old document}: every kill point, torn-write variant and power-loss subset of the intercepted call log must leave the old or the new document (or no file), mode 0600; an injected error at every call must be reported and leave the old document; the write protocol must be temp + fsync + rename; non-trivial = variants that hold the new document"})
	base := hx.Scratch("c13-")
	defer os.RemoveAll(base)
	oldDoc := []byte(`{"a":` + validEntry + `}`)
	newDoc := []byte(`{"a":{"secret":{"Value":"bmV3ZXI=","Version":2},"lastAccess":"9"},"b":` + validEntry + `}`)
	for _, pre := range []string{"no-file", "old-document"} {
		dir := filepath.Join(base, pre)
		setup := func() {
			os.RemoveAll(dir)
			os.MkdirAll(dir, 0o700)
			if pre == "old-document" {
				os.WriteFile(filepath.Join(dir, "cache.json"), oldDoc, 0o600)
			}
		}
		setup()
		fc, err := setec.NewFileCache(filepath.Join(dir, "cache.json"))
		if err != nil {
			panic(err)
		}
		rec := fsx.NewRecorder(dir)
		rec.Baseline()
		vos.SetHook(rec)
		err = fc.Write(newDoc)
		vos.SetHook(nil)
		if err != nil {
			rep.Violate(sec.Name, "filecache/clean-write-failed: "+pre, err.Error(), nil)
			continue
		}
		final := rec.Snap()
		if err := rec.CheckAtomicProtocol("cache.json"); err != nil {
			rep.Violate(sec.Name, "filecache/write-protocol: "+pre, err.Error(), map[string]any{"log": rec.Log()})
		}
		for _, c := range rec.Calls {
			if c.Inside && ((c.Op == "createtemp" || c.Op == "open") && c.Mutating && c.Perm&0o077 != 0 || c.Op == "chmod" && c.Perm&0o077 != 0) {
				rep.Violate(sec.Name, "filecache/mode: "+pre, "call "+c.String()+" makes the cache readable by others", nil)
			}
		}
		sec.Samples = append(sec.Samples, map[string]any{"pre": pre, "fs_call_log": rec.Log()})
		for _, v := range rec.CrashVariants(final, true) {
			sec.Evaluations++
			f, ok := v.Files["cache.json"]
			switch {
			case !ok:
				if pre != "no-file" {
					rep.Violate(sec.Name, "filecache/lost: "+pre+" "+v.Desc, v.Desc+": the cache file is gone", nil)
				}
			case bytes.Equal(f.Data, newDoc):
				sec.Nontrivial++
			case pre == "old-document" && bytes.Equal(f.Data, oldDoc):
			default:
				rep.Violate(sec.Name, "filecache/torn: "+pre+" "+v.Desc, fmt.Sprintf("%s: the cache file holds %d bytes that are neither the old nor the new document", v.Desc, len(f.Data)), nil)
			}
			if ok && f.Mode.Perm()&0o077 != 0 {
				rep.Violate(sec.Name, "filecache/mode-bits: "+pre, fmt.Sprintf("%s: cache file mode %o", v.Desc, f.Mode.Perm()), nil)
			}
		}
		n := rec.NumMutating()
		for k := 0; k < n; k++ {
			for _, short := range []int{0, 40} {
				setup()
				r2 := fsx.NewRecorder(dir)
				r2.Baseline()
				r2.FaultAt, r2.FaultShort = k, short
				vos.SetHook(r2)
				err := fc.Write(newDoc)
				vos.SetHook(nil)
				if !r2.Fired || (short > 0 && !strings.HasPrefix(r2.Calls[r2.MutIdx[k]].Op, "write")) {
					continue
				}
				sec.Evaluations++
				sec.Extra["faults"]++
				desc := fmt.Sprintf("%s: fault at call %d (%s)", pre, k, r2.Calls[r2.MutIdx[k]].String())
				if err == nil {
					rep.Violate(sec.Name, "filecache/fault-swallowed: "+desc, desc+": Write reported success", nil)
					continue
				}
				got, rerr := os.ReadFile(filepath.Join(dir, "cache.json"))
				if pre == "no-file" {
					if rerr == nil && !bytes.Equal(got, newDoc) {
						rep.Violate(sec.Name, "filecache/fault-left-garbage: "+desc, fmt.Sprintf("%s: a partial cache file of %d bytes was left", desc, len(got)), nil)
					}
				} else if rerr != nil || !bytes.Equal(got, oldDoc) {
					rep.Violate(sec.Name, "filecache/fault-damaged-old: "+desc, fmt.Sprintf("%s: the old document is no longer intact (err=%v, %d bytes)", desc, rerr, len(got)), nil)
				}
			}
		}
	}
	sec.States, sec.Transitions = sec.Evaluations, sec.Evaluations
}

// cacheFailures: a cache whose Read fails, or whose Write fails at call k for
// every k, never stops the store; later writes hold the complete state.
func cacheFailures(rep *report.Report) {
	sec := rep.Add(&report.Section{Name: "cache-read-write-failures", Engine: "enum", Exhaustive: true, Extra: map[string]int64{},
		Rule: "history NewStore(declared a; cache empty) → LookupSecret(u) → three times (server change + poll), values of varying length, with a cache that keeps the slice it is handed (as setec.MemCache does) and whose Read fails, or its Write failing at call k for every k; every operation must still succeed and serve the service's values, the cache's contents must at every moment be the document of its last successful write, and the first successful write afterwards must hold the complete active set; non-trivial = runs in which a failure was injected"})
	for k := 0; k <= 6; k++ {
		for _, failRead := range []bool{false, true} {
			if failRead && k != 0 {
				continue
			}
			svc := NewSvc()
			// successive versions get shorter and longer values, so successive documents differ in length
			svc.Pad = func(ver uint32) int { return []int{0, 40, 3, 25, 0, 17}[ver%6] }
			svc.Put("a")
			svc.Put("u")
			c := &HCache{FailW: k, FailR: failRead}
			desc := fmt.Sprintf("write#%d fails, read fails=%v", k, failRead)
			sec.Evaluations++
			if k > 0 || failRead {
				sec.Nontrivial++
			}
			bad := func(kind, msg string) {
				rep.Violate(sec.Name, "cache-failure/"+kind+": "+desc, desc+": "+msg, nil)
			}
			// after every step: what the cache holds (it keeps the slice it was given, as setec.MemCache
			// does) is the document of its last successful write - a failed or later write attempt must
			// not have disturbed it
			intact := func(when string) {
				if len(c.Writes) == 0 {
					return
				}
				if last := c.Writes[len(c.Writes)-1]; !bytes.Equal(c.Data, last) {
					bad("document-disturbed", fmt.Sprintf("%s: the cache holds %q, but its last successful write was %q", when, report.Clip(string(c.Data), 200), report.Clip(string(last), 200)))
				}
			}
			st, err := setec.NewStore(context.Background(), setec.StoreConfig{Client: svc, Secrets: []string{"a"}, AllowLookup: true, Cache: c, PollInterval: -1, Logf: func(string, ...any) {}})
			if err != nil {
				bad("newstore", err.Error())
				continue
			}
			intact("after NewStore")
			if _, err := st.LookupSecret(context.Background(), "u"); err != nil {
				bad("lookup", err.Error())
			}
			intact("after LookupSecret")
			for i := 0; i < 3; i++ {
				svc.Put("a")
				// a failing cache write may be reported by Refresh, but the values must be installed
				st.Refresh(context.Background())
				_, want, _ := svc.Active("a")
				if got := string(st.Secret("a").Get()); got != want {
					bad("value", fmt.Sprintf("after poll %d Secret(a)=%q, service has %q", i, got, want))
				}
				intact(fmt.Sprintf("after poll %d", i))
			}
			d := st.VerifDump()
			doc, perr := parseCache(c.Data)
			if len(c.Writes) == 0 {
				// five installs, at most one failing write: a cache whose Read failed is still the cache
				bad("never-written", "the store installed values five times and never wrote its cache successfully")
			} else if perr != nil {
				bad("document", perr.Error())
			} else {
				for n, e := range d {
					ce := doc[n]
					if ce == nil || ce.Secret == nil || ce.Secret.Version != e.Version {
						// only a violation if a write succeeded after the last install
						if k != 5 && k != 6 {
							bad("incomplete", fmt.Sprintf("the last successful cache write lacks the current state of %q", n))
						}
					}
				}
			}
			st.Close()
		}
	}
	sec.States, sec.Transitions = sec.Evaluations, sec.Evaluations
	sec.Samples = append(sec.Samples, "write#2 fails: lookup installs u, cache keeps the previous document, the poll's write then holds a and u")
}

// valueClient serves fixed values (version 1) for the names it knows and can be switched off.
type valueClient struct {
	vals map[string][]byte
	down bool
	reqs int
}

func (c *valueClient) Get(ctx context.Context, name string) (*api.SecretValue, error) {
	c.reqs++
	if c.down {
		return nil, errors.New("service unreachable")
	}
	v, ok := c.vals[name]
	if !ok {
		return nil, api.ErrNotFound
	}
	return &api.SecretValue{Value: append([]byte(nil), v...), Version: 1}, nil
}

func (c *valueClient) GetIfChanged(ctx context.Context, name string, old api.SecretVersion) (*api.SecretValue, error) {
	if !c.down && old == 1 {
		if _, ok := c.vals[name]; ok {
			return nil, api.ErrValueNotChanged
		}
	}
	return c.Get(ctx, name)
}

// ownCacheValues: the document a store writes is accepted again by a store (and by the file-backed
// client) whatever the values are - empty, binary, looking like JSON, long.
func ownCacheValues(rep *report.Report) {
	sec := rep.Add(&report.Section{Name: "restart-from-own-cache-unusual-values", Engine: "enum", Exhaustive: true, Extra: map[string]int64{},
		Rule: "for each of eight values (empty, NUL, invalid UTF-8, a JSON object, a quote, 300 bytes, white space, text) as a declared secret, as a looked-up secret, and next to an ordinary one: the store writes its cache (memory and file cache), is closed, and a new store starts from that cache with the service unreachable: it must start at once without a request and serve the same bytes; the file-backed client must agree for non-empty values; non-trivial = all"})
	values := [][]byte{{}, {0}, {0xff, 0xfe, 'x'}, []byte(`{"secret":{"Value":"eA==","Version":9}}`), []byte(`"`), bytes.Repeat([]byte("0123456789"), 30), []byte(" \n\t"), []byte("plain text")}
	dir := hx.Scratch("c13own-")
	defer os.RemoveAll(dir)
	for vi, val := range values {
		for _, how := range []string{"declared", "looked-up"} {
			for _, kind := range []string{"mem", "file"} {
				sec.Evaluations++
				sec.Nontrivial++
				desc := fmt.Sprintf("value %q %s, %s cache", report.Clip(string(val), 40), how, kind)
				bad := func(k, msg string) {
					rep.Violate(sec.Name, "own-cache/"+k+": "+desc, desc+": "+msg, map[string]any{"value": vi, "how": how, "cache": kind})
				}
				cl := &valueClient{vals: map[string][]byte{"odd": val, "plain": []byte("ordinary")}}
				var cache setec.Cache
				var path string
				if kind == "mem" {
					cache = setec.NewMemCache("")
				} else {
					path = filepath.Join(dir, fmt.Sprintf("cache-%d-%s.json", vi, how))
					os.Remove(path)
					fc, err := setec.NewFileCache(path)
					if err != nil {
						bad("harness", err.Error())
						continue
					}
					cache = fc
				}
				cfg := setec.StoreConfig{Client: cl, Secrets: []string{"plain"}, AllowLookup: true, Cache: cache, PollInterval: -1, Logf: func(string, ...any) {}}
				if how == "declared" {
					cfg.Secrets = []string{"plain", "odd"}
				}
				st, err := setec.NewStore(context.Background(), cfg)
				if err != nil {
					bad("first-start", err.Error())
					continue
				}
				if how == "looked-up" {
					if _, err := st.LookupSecret(context.Background(), "odd"); err != nil {
						bad("lookup", err.Error())
					}
				}
				st.Close()
				cl.down = true
				cl.reqs = 0
				ctx, cancel := context.WithTimeout(context.Background(), 2*time.Second)
				st2, err := setec.NewStore(ctx, cfg)
				cancel()
				if err != nil {
					bad("restart-refused", fmt.Sprintf("a store started from the cache its predecessor wrote, with the service unreachable, failed: %v", err))
					continue
				}
				if cl.reqs != 0 {
					bad("restart-requests", fmt.Sprintf("the restart sent %d requests although the cache was complete", cl.reqs))
				}
				h := st2.Secret("odd")
				if h == nil {
					bad("restart-lost", "the restarted store does not know the secret")
				} else if got := h.Get(); !bytes.Equal(got, val) {
					bad("restart-value", fmt.Sprintf("the restarted store serves %q", report.Clip(string(got), 40)))
				}
				st2.Close()
				if kind == "file" && len(val) > 0 {
					fcl, err := setec.NewFileClient(path)
					if err != nil {
						bad("fileclient-open", err.Error())
					} else if sv, err := fcl.Get(context.Background(), "odd"); err != nil || !bytes.Equal(sv.Value, val) {
						bad("fileclient-value", fmt.Sprintf("the file-backed client on the same file: %v", err))
					}
				}
			}
		}
	}
	sec.States, sec.Transitions = sec.Evaluations, sec.Evaluations
}

// failedStart: a start that gives up (a declared secret cannot be obtained before the caller's context
// ends) must leave the cache usable - whatever it holds afterwards is one complete document that the
// store itself and the file-backed client accept, and the values it held before are still served from it
// when the service is down.
func failedStart(rep *report.Report) {
	sec := rep.Add(&report.Section{Name: "cache-after-a-failed-start", Engine: "enum", Exhaustive: true, Extra: map[string]int64{},
		Rule: "cache {alpha v1} (also: alpha and gamma), a start declaring alpha, beta (and gamma) where beta can never be obtained and the context ends after a few retry rounds, so NewStore fails; then the cache document must be well-formed in the documented shape (no entry without a secret), and a start declaring only what the cache held, with the service unreachable, must succeed and serve those values; non-trivial = all"})
	for _, withGamma := range []bool{false, true} {
		sec.Evaluations++
		sec.Nontrivial++
		desc := fmt.Sprintf("cache holds gamma too=%v", withGamma)
		vals := map[string][]byte{"alpha": []byte("one"), "gamma": []byte("three")}
		held := []string{"alpha"}
		doc := `{"alpha":{"secret":{"Value":"` + b64("one") + `","Version":1},"lastAccess":"5"}`
		if withGamma {
			doc += `,"gamma":{"secret":{"Value":"` + b64("three") + `","Version":1},"lastAccess":"5"}`
			held = append(held, "gamma")
		}
		doc += "}"
		c := &HCache{Data: []byte(doc)}
		cl := &valueClient{vals: vals}
		ctx, cancel := context.WithTimeout(context.Background(), 60*time.Millisecond)
		declared := []string{"alpha", "beta"}
		if withGamma {
			declared = append(declared, "gamma")
		}
		st, err := setec.NewStore(ctx, setec.StoreConfig{Client: cl, Secrets: declared, Cache: c, PollInterval: -1, Logf: func(string, ...any) {}})
		cancel()
		if err == nil {
			st.Close()
			rep.Violate(sec.Name, "failed-start/harness: "+desc, desc+": NewStore succeeded although beta does not exist", nil)
			continue
		}
		bad := func(kind, msg string) {
			rep.Violate(sec.Name, "failed-start/"+kind+": "+desc, desc+": after a start that gave up ("+report.Clip(err.Error(), 80)+"): "+msg, map[string]any{"cache": string(c.Data)})
		}
		if !wellFormed(c.Data) {
			bad("cache-not-well-formed", fmt.Sprintf("the cache holds %q, which is not a document of the documented shape", report.Clip(string(c.Data), 200)))
		}
		cl.down = true
		ctx2, cancel2 := context.WithTimeout(context.Background(), 3*time.Second)
		st2, err2 := setec.NewStore(ctx2, setec.StoreConfig{Client: cl, Secrets: held, Cache: c, PollInterval: -1, Logf: func(string, ...any) {}})
		cancel2()
		if err2 != nil {
			bad("cache-unusable", fmt.Sprintf("a start from the cache (%q) with the service unreachable fails: %v", report.Clip(string(c.Data), 200), err2))
			continue
		}
		for _, n := range held {
			if got := string(st2.Secret(n).Get()); got != string(vals[n]) {
				bad("cache-value", fmt.Sprintf("%q from the cache is %q, was %q", n, got, vals[n]))
			}
		}
		st2.Close()
	}
	sec.States, sec.Transitions = sec.Evaluations, sec.Evaluations
}
