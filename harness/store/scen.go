package store

import (
	"context"
	"fmt"
	"sort"
	"strconv"
	"strings"
	"sync"
	"sync/atomic"
	"testing/synctest"
	"time"

	"github.com/tailscale/setec/client/setec"

	"verif/hx"
	"verif/sched"
)

// scen describes one closed concurrent harness around a real Store.
type scen struct {
	Name     string
	Thorough bool // explored in the thorough tier only
	Declared []string
	Service  []string         // names that exist on the service (default: Declared + names used)
	Initial  map[string]cInit // start-up cache entries
	Expiry   time.Duration
	ClockAdd time.Duration // store clock = bubble clock + ClockAdd (to make cache stamps old)
	// (the action "clockadd:<duration>" moves the store clock forward at a scheduling point of its own)
	Threads map[string][]string
	// Events: srv-put:<name> (new version, activated), tick, cancel:<thread>
	Events      []string
	Ticker      bool          // harness ticker + poller task
	Interval    time.Duration // real ticker with this interval (virtual time); 0 = polling disabled unless Ticker
	Latency     time.Duration // every service request takes this long (virtual time)
	CtxLikeErr  bool          // failures of the service look like a timeout (an error wrapping context.DeadlineExceeded) although no context has ended
	Outcomes    []string      // service outcomes offered to the explorer per request (nil = always ok)
	OutcomesFor map[string][]string
	UseTime     bool
	Horizon     time.Duration
	MapOrder    bool
	NoLookup    bool
	CtxFor      map[string]string // thread -> "", "1s", "10m", "cancel"
}

type cInit struct {
	Ver        uint32
	LastAccess int64 // seconds relative to the store clock's start; 0 = literally 0
}

// hTicker is a harness-driven ticker.
type hTicker struct{ ch chan time.Time }

func (t *hTicker) Chan() <-chan time.Time { return t.ch }
func (t *hTicker) Stop()                  {}
func (t *hTicker) Done()                  {}

type readRec struct {
	thread string
	name   string
	val    string
	begin  int
	end    int
	clock  int64 // the store clock (seconds) when the read began
}

type refreshRec struct {
	thread     string
	begin, end int
	err        error
	floor      map[string]uint32 // versions active on the service when the (possibly shared) round can have begun
	atEnd      map[string]uint32 // versions in the store when the call had returned without error
	logFrom    int
	logTo      int
}

type lookupRec struct {
	thread      string
	name        string
	begin, end  time.Duration
	err         error
	ok          bool
	ctxKind     string
	ctxErrAtEnd error
	handleVal   string
}

// run is the per-execution state.
type run struct {
	sc            *scen
	x             *sched.Exec
	svc           *Svc
	cache         *HCache
	st            *setec.Store
	tick          *hTicker
	mu            sync.Mutex
	clk           int // logical clock of harness observations
	reads         []readRec
	refr          []refreshRec
	looks         []lookupRec
	handles       map[string]setec.Secret // by thread:name
	closed        bool
	startup       map[string]string
	activeRefresh int
	floorNow      map[string]uint32
	tickFloor     map[string]uint32
	// abandonFloor: a Refresh whose caller gave up (context ended) leaves its poll round running; a
	// later Refresh may join that round, whose values are as old as the round. It is kept until no
	// goroutine started by an abandoning caller is alive any more.
	abandonFloor map[string]uint32
	abandoners   []string
	clockOff     atomic.Int64 // nanoseconds added to the store clock by clockadd actions
	cancels      map[string]context.CancelFunc
	viol         []violation
	secretNil    map[string]bool
	pending      map[string]time.Duration // thread:name -> begin of an unfinished lookup
	pendingAtEnd map[string]time.Duration
	endAt        time.Duration
	logAtEnd     int
	upds         map[string]*setec.Updater[string]
	updErr       []string
	teardown     bool
}

func (r *run) tickClk() int {
	r.mu.Lock()
	defer r.mu.Unlock()
	r.clk++
	return r.clk
}

func (r *run) fail(prop, kind, format string, a ...any) {
	r.mu.Lock()
	r.viol = append(r.viol, violation{prop, kind, fmt.Sprintf(format, a...)})
	r.mu.Unlock()
}

func verOf(val string) uint32 {
	i := strings.LastIndex(val, "#v")
	if i < 0 {
		return 0
	}
	n, _ := strconv.Atoi(val[i+2:])
	return uint32(n)
}

// snapshot: the service's active versions of the names the store holds a value for right now. A
// name the store does not know yet when a poll round begins is "covered from the next poll on".
func (r *run) snapshot() map[string]uint32 {
	out := map[string]uint32{}
	var known map[string]setec.VerifSecret
	if r.st != nil {
		known = r.st.VerifDump()
	}
	for _, n := range r.allNames() {
		if g, ok := known[n]; !ok || g.Nil {
			continue
		}
		if v, _, ok := r.svc.Active(n); ok {
			out[n] = v
		}
	}
	return out
}

func (r *run) allNames() []string {
	set := map[string]bool{}
	for _, n := range r.sc.Declared {
		set[n] = true
	}
	for _, n := range r.sc.Service {
		set[n] = true
	}
	for n := range r.sc.Initial {
		set[n] = true
	}
	for _, acts := range r.sc.Threads {
		for _, a := range acts {
			if _, n, ok := strings.Cut(a, ":"); ok {
				set[n] = true
			}
		}
	}
	var out []string
	for n := range set {
		out = append(out, n)
	}
	sort.Strings(out)
	return out
}

// minFloor combines two floors: a name is covered only if both cover it (a round that began before
// the store knew a name does not cover that name), at the lower of the two versions. nil = no floor.
func minFloor(a, b map[string]uint32) map[string]uint32 {
	if a == nil {
		return b
	}
	if b == nil {
		return a
	}
	out := map[string]uint32{}
	for k, v := range a {
		if w, ok := b[k]; ok {
			out[k] = min(v, w)
		}
	}
	return out
}

// harness builds the sched.Harness; props selects which oracles report.
func (sc *scen) harness(props map[string]bool, out *[]violation) func() *sched.Harness {
	return func() *sched.Harness {
		var r *run
		return &sched.Harness{
			Setup: func(x *sched.Exec) {
				r = &run{sc: sc, x: x, svc: NewSvc(), cache: &HCache{}, handles: map[string]setec.Secret{}, startup: map[string]string{}, cancels: map[string]context.CancelFunc{}, secretNil: map[string]bool{}, pending: map[string]time.Duration{}, upds: map[string]*setec.Updater[string]{}}
				x.Data = r
				x.UseTime = sc.UseTime
				x.MapOrder = sc.MapOrder
				if sc.Horizon > 0 {
					x.Horizon = sc.Horizon
				}
				x.MaxSteps = 600
				start := time.Now()
				r.svc.now = func() time.Duration { return time.Since(start) }
				for _, n := range r.allNames() {
					if n == "missing" {
						continue
					}
					r.svc.Put(n)
				}
				// start-up cache
				if len(sc.Initial) > 0 {
					var parts []string
					var names []string
					for n := range sc.Initial {
						names = append(names, n)
					}
					sort.Strings(names)
					base := time.Now().Add(sc.ClockAdd).Unix()
					for _, n := range names {
						ci := sc.Initial[n]
						la := int64(0)
						if ci.LastAccess != 0 {
							la = base + ci.LastAccess
						}
						for r.svc.S[n].Latest < ci.Ver {
							r.svc.Put(n)
						}
						parts = append(parts, fmt.Sprintf(`"%s":{"secret":{"Value":"%s","Version":%d},"lastAccess":"%d"}`, n, b64(Value(n, ci.Ver)), ci.Ver, la))
						r.startup[n] = Value(n, ci.Ver)
					}
					r.cache.Data = []byte("{" + strings.Join(parts, ",") + "}")
				}
				cfg := setec.StoreConfig{Client: r.svc, Secrets: append([]string(nil), sc.Declared...), AllowLookup: !sc.NoLookup, Cache: r.cache,
					PollInterval: -1, ExpiryAge: sc.Expiry, Logf: func(string, ...any) {},
					TimeNow: func() time.Time { return r.storeNow() }}
				if sc.Ticker {
					r.tick = &hTicker{ch: make(chan time.Time)} // unbuffered: a tick is delivered only to a waiting poller, so select never sees two ready cases
					cfg.PollTicker = r.tick
					cfg.PollInterval = time.Hour
				} else if sc.Interval > 0 {
					cfg.PollInterval = sc.Interval
				}
				st, err := setec.NewStore(context.Background(), cfg)
				if err != nil {
					panic("scenario setup: " + err.Error())
				}
				r.st = st
				// from here on the service parks at seams and offers outcomes
				r.svc.Seams = true
				r.svc.Latency = sc.Latency
				r.svc.CtxLikeErr = sc.CtxLikeErr
				r.svc.MaxReqs = 300
				r.cache.Seams = true
				if sc.Outcomes != nil || sc.OutcomesFor != nil {
					r.svc.Outcomes = func(name string) []string {
						if o, ok := sc.OutcomesFor[name]; ok {
							return o
						}
						return sc.Outcomes
					}
				}
				x.Invariant = func() error {
					for th, op := range x.Parked() {
						if op.Kind == "seam" && strings.HasPrefix(op.Label, "svc.") && x.HeldBy(th) > 0 {
							return fmt.Errorf("C12/lock-held-across-service-call: thread %s waits for the service (%s) while holding %d store lock(s)", th, op.Label, x.HeldBy(th))
						}
					}
					return nil
				}
				var tnames []string
				for t := range sc.Threads {
					tnames = append(tnames, t)
				}
				sort.Strings(tnames)
				for _, tn := range tnames {
					tn := tn
					acts := sc.Threads[tn]
					ctx := context.Background()
					switch sc.CtxFor[tn] {
					case "1s":
						var c context.CancelFunc
						ctx, c = context.WithTimeout(ctx, time.Second)
						r.cancels[tn] = c
					case "10m":
						var c context.CancelFunc
						ctx, c = context.WithTimeout(ctx, 10*time.Minute)
						r.cancels[tn] = c
					case "cancel":
						var c context.CancelFunc
						ctx, c = context.WithCancel(ctx)
						r.cancels[tn] = c
					case "patient":
						// no deadline, never cancelled; the scripted service answers requests made under it
						ctx = context.WithValue(ctx, PatientKey{}, true)
					}
					x.Go(tn, func() {
						defer x.ReportPanic()
						for _, a := range acts {
							r.act(tn, ctx, a)
						}
					})
				}
				for i, ev := range sc.Events {
					ev := ev
					kind, arg, _ := strings.Cut(ev, ":")
					switch kind {
					case "srv-put":
						x.AddEvent(fmt.Sprintf("%s#%d", ev, i), nil, func() {
							r.svc.Put(arg)
							x.Note("service: %s now at v%d", arg, r.svc.S[arg].Active)
						})
					case "srv-back":
						x.AddEvent(fmt.Sprintf("%s#%d", ev, i), func() bool { return r.svc.S[arg].Active > 1 }, func() {
							r.svc.Back(arg)
							x.Note("service: %s back at v%d", arg, r.svc.S[arg].Active)
						})
					case "tick":
						x.AddEvent(fmt.Sprintf("tick#%d", i), nil, func() {
							r.mu.Lock()
							r.tickFloor = minFloor(r.tickFloor, r.snapshot())
							r.mu.Unlock()
							select {
							case r.tick.ch <- time.Now():
							default:
							}
						})
					case "cancel":
						x.AddEvent(fmt.Sprintf("cancel:%s#%d", arg, i), nil, func() { r.cancels[arg]() })
					}
				}
			},
			Teardown: func(x *sched.Exec) {
				// what was still unfinished when the controlled phase ended (the service is made to answer below,
				// so that every goroutine can finish)
				r.mu.Lock()
				r.pendingAtEnd = map[string]time.Duration{}
				for k, v := range r.pending {
					r.pendingAtEnd[k] = v
				}
				r.endAt = r.svc.now()
				r.logAtEnd = r.svc.NReq()
				r.mu.Unlock()
				for _, c := range r.cancels {
					c()
				}
				r.svc.Seams = false
				r.svc.Latency = 0
				r.svc.Outcomes = nil
				close(r.svc.Release)
				// let every poll round and lookup still in flight finish first: a Refresh that joins a round
				// begun earlier legitimately shares that round's (older) answers
				synctest.Wait()
				r.cache.Seams = false
				if r.st != nil && x.Stuck == "" && x.Violation == nil {
					r.checkCacheInSync("at quiescence after the scenario")
					r.checkLastAccess("at quiescence after the scenario")
				}
				if r.st != nil && !r.closed && x.Stuck == "" && x.Violation == nil {
					// final convergence: one more poll with a healthy service
					done := make(chan error, 1)
					go func() { done <- r.st.Refresh(context.Background()) }()
					select {
					case err := <-done:
						if err != nil {
							r.fail("C11", "final-poll-failed", "a poll with a healthy service after the scenario failed: %v", err)
						} else {
							r.checkConverged()
						}
					case <-time.After(time.Hour):
						r.fail("C11", "final-poll-hangs", "a poll with a healthy service after the scenario did not return within a virtual hour")
					}
				}
				if r.st != nil {
					closed := make(chan struct{})
					go func() { r.st.Close(); close(closed) }()
					select {
					case <-closed:
					case <-time.After(time.Hour):
						r.fail("C12", "close-hangs", "Close did not return within a virtual hour")
					}
				}
			},
			Final: func(x *sched.Exec) error {
				r.judge()
				var keep []violation
				for _, v := range r.viol {
					if props[v.prop] {
						keep = append(keep, v)
					}
				}
				x.Outcome = r.outcome()
				if len(keep) > 0 {
					*out = append(*out, keep...)
					return fmt.Errorf("%s/%s: %s", keep[0].prop, keep[0].kind, keep[0].msg)
				}
				return nil
			},
		}
	}
}

func (r *run) outcome() string {
	var parts []string
	for _, rd := range r.reads {
		parts = append(parts, fmt.Sprintf("%s:%s=%s", rd.thread, rd.name, rd.val))
	}
	for _, rf := range r.refr {
		parts = append(parts, fmt.Sprintf("%s:refresh=%v", rf.thread, rf.err == nil))
	}
	for _, l := range r.looks {
		parts = append(parts, fmt.Sprintf("%s:lookup(%s)=%v@%v", l.thread, l.name, l.err == nil, l.end))
	}
	sort.Strings(parts)
	d := r.st.VerifDump()
	var names []string
	for n := range d {
		names = append(names, n)
	}
	sort.Strings(names)
	for _, n := range names {
		parts = append(parts, fmt.Sprintf("%s=v%d", n, d[n].Version))
	}
	return strings.Join(parts, " ")
}

// act performs one scripted action of a thread.
func (r *run) act(tn string, ctx context.Context, a string) {
	kind, name, _ := strings.Cut(a, ":")
	switch kind {
	case "secret":
		h := r.st.Secret(name)
		r.mu.Lock()
		if h != nil {
			r.handles[tn+":"+name] = h
		} else {
			r.secretNil[tn+":"+name] = true
		}
		r.mu.Unlock()
	case "read":
		r.mu.Lock()
		h := r.handles[tn+":"+name]
		r.mu.Unlock()
		if h == nil {
			return
		}
		b := r.tickClk()
		c := r.storeNow().Unix()
		v := string(h.Get())
		e := r.tickClk()
		r.mu.Lock()
		r.reads = append(r.reads, readRec{tn, name, v, b, e, c})
		r.mu.Unlock()
	case "refresh":
		r.mu.Lock()
		r.clk++
		rec := refreshRec{thread: tn, begin: r.clk, logFrom: r.svc.NReq()}
		snap := r.snapshot()
		if r.activeRefresh == 0 {
			r.floorNow = snap
		}
		if len(r.abandoners) > 0 {
			live := false
			for _, a := range r.abandoners {
				live = live || r.x.LiveDescendants(a)
			}
			if !live {
				r.abandoners, r.abandonFloor = nil, nil
			}
		}
		r.activeRefresh++
		rec.floor = minFloor(minFloor(r.floorNow, snap), r.tickFloor)
		if len(r.abandoners) > 0 {
			rec.floor = minFloor(rec.floor, r.abandonFloor)
		}
		r.mu.Unlock()
		err := r.st.Refresh(ctx)
		var d map[string]setec.VerifSecret
		if err == nil {
			// the store's contents once the poll has completed, taken before the completion is time-stamped:
			// a read that begins after that stamp began after this dump
			d = r.st.VerifDump()
			rec.atEnd = map[string]uint32{}
			for n, g := range d {
				if !g.Nil {
					rec.atEnd[n] = g.Version
				}
			}
		}
		r.mu.Lock()
		r.clk++
		rec.end, rec.err, rec.logTo = r.clk, err, r.svc.NReq()
		r.activeRefresh--
		if err != nil && ctx.Err() != nil {
			if len(r.abandoners) > 0 {
				r.abandonFloor = minFloor(r.abandonFloor, rec.floor)
			} else {
				r.abandonFloor = rec.floor
			}
			r.abandoners = append(r.abandoners, tn)
		}
		r.refr = append(r.refr, rec)
		r.mu.Unlock()
		if err == nil {
			// every name known when the poll began and still known must be at or beyond the floor
			for n, fv := range rec.floor {
				if g, ok := d[n]; ok && !g.Nil && g.Version < fv && !r.sc.backwards() {
					r.fail("C11", "poll-did-not-install", "%s: Refresh returned without error but %q is at v%d; v%d was already active on the service when the poll round began", tn, n, g.Version, fv)
				}
			}
		}
	case "lookup":
		begin := r.svc.now()
		r.mu.Lock()
		r.pending[tn+":"+name] = begin
		r.mu.Unlock()
		h, err := r.st.LookupSecret(ctx, name)
		r.mu.Lock()
		delete(r.pending, tn+":"+name)
		r.mu.Unlock()
		rec := lookupRec{thread: tn, name: name, begin: begin, end: r.svc.now(), err: err, ok: err == nil, ctxKind: r.sc.CtxFor[tn], ctxErrAtEnd: ctx.Err()}
		if h != nil {
			rec.handleVal = string(h.Get())
			r.mu.Lock()
			r.handles[tn+":"+name] = h
			r.mu.Unlock()
		}
		r.mu.Lock()
		r.looks = append(r.looks, rec)
		r.mu.Unlock()
	case "upd":
		begin := r.svc.now()
		r.mu.Lock()
		r.pending[tn+":"+name] = begin
		r.mu.Unlock()
		u, err := setec.NewUpdater(ctx, r.st, name, func(b []byte) (string, error) { return string(b), nil })
		rec := lookupRec{thread: tn, name: name, begin: begin, end: r.svc.now(), err: err, ok: err == nil, ctxKind: r.sc.CtxFor[tn], ctxErrAtEnd: ctx.Err()}
		if u != nil {
			rec.handleVal = u.Get()
		}
		r.mu.Lock()
		delete(r.pending, tn+":"+name)
		r.looks = append(r.looks, rec)
		if err != nil {
			r.updErr = append(r.updErr, fmt.Sprintf("%s: NewUpdater(%q): %v", tn, name, err))
		} else {
			r.upds[tn+":"+name] = u
		}
		r.mu.Unlock()
	case "updget":
		r.mu.Lock()
		u := r.upds[tn+":"+name]
		r.mu.Unlock()
		if u != nil {
			v := u.Get()
			if !r.svc.Served[name][v] && r.startup[name] != v {
				r.fail("C15", "updater-unserved-value", "%s: Updater.Get for %q returned %q, never served", tn, name, v)
			}
		}
	case "srvput":
		// a server-side change performed by a harness thread (program order with its other actions)
		r.x.Seam("env.srv-put(" + name + ")")
		r.svc.Put(name)
		r.x.Note("service: %s now at v%d", name, r.svc.S[name].Active)
	case "cancelctx":
		r.x.Seam("env.cancel(" + name + ")")
		r.cancels[name]()
	case "sleep":
		d, _ := time.ParseDuration(name)
		time.Sleep(d)
	case "clockadd":
		d, _ := time.ParseDuration(name)
		r.x.Seam("env.clock+" + name)
		r.clockOff.Add(int64(d))
	case "close":
		r.st.Close()
		r.mu.Lock()
		r.closed = true
		r.mu.Unlock()
	}
}

// storeNow is the store's clock: the bubble's clock, shifted by the scenario and by clockadd actions.
func (r *run) storeNow() time.Time {
	return time.Now().Add(r.sc.ClockAdd).Add(time.Duration(r.clockOff.Load()))
}

// checkLastAccess: each read refreshes the last-access time, so once all reads are over the stamp of
// a name is at least the clock value at which its latest read began (C19).
func (r *run) checkLastAccess(when string) {
	latest := map[string]int64{}
	r.mu.Lock()
	for _, rd := range r.reads {
		if rd.clock > latest[rd.name] {
			latest[rd.name] = rd.clock
		}
	}
	r.mu.Unlock()
	d := r.st.VerifDump()
	for n, c := range latest {
		if g, ok := d[n]; ok && !g.Nil && g.LastAccess < c {
			r.fail("C19", "last-access-went-back", "%s: %q was read when the clock stood at %d, but its last-access stamp is %d (the expiry rule would drop it early)", when, n, c, g.LastAccess)
		}
	}
}

// checkCacheInSync: whenever nothing is in flight, the cache document holds every known secret's version and bytes (C13).
func (r *run) checkCacheInSync(when string) {
	if len(r.cache.Writes) == 0 {
		return // nothing was installed since start-up
	}
	doc, err := parseCache(r.cache.Data)
	if err != nil {
		r.fail("C13", "cache-unparsable", "%s: cache document does not parse: %v", when, err)
		return
	}
	for n, g := range r.st.VerifDump() {
		if g.Nil {
			continue
		}
		c := doc[n]
		if c == nil || c.Secret == nil {
			r.fail("C13", "cache-missing", "%s: the cache lacks %q, which the store serves at v%d", when, n, g.Version)
			// the same observation under the other statements that speak about the cache
			r.fail("C19", "dropped-from-cache", "%s: %q is in the store (v%d) but gone from the cache, although nothing allowed dropping it", when, n, g.Version)
			if r.lookedUp(n) {
				r.fail("C16", "lookup-not-cached", "%s: %q was looked up and installed (v%d) but is not in the cache", when, n, g.Version)
			}
		} else if c.Secret.Version != g.Version || string(c.Secret.Value) != g.Value {
			r.fail("C13", "cache-stale", "%s: the cache holds %q at v%d while the store serves v%d (a restart with the service unreachable would serve the old value)", when, n, c.Secret.Version, g.Version)
			if r.lookedUp(n) {
				r.fail("C16", "lookup-not-cached", "%s: %q was looked up; the cache holds v%d while the store serves v%d", when, n, c.Secret.Version, g.Version)
			}
		}
	}
}

// lookedUp reports whether the scenario obtains name through a lookup (LookupSecret / NewUpdater on an undeclared name).
func (r *run) lookedUp(name string) bool {
	for _, d := range r.sc.Declared {
		if d == name {
			return false
		}
	}
	for _, acts := range r.sc.Threads {
		for _, a := range acts {
			if a == "lookup:"+name || a == "upd:"+name {
				return true
			}
		}
	}
	return false
}

// checkConverged: after a clean poll every name in the store is at the service's active version, and so is the cache.
func (r *run) checkConverged() {
	for k, u := range r.upds {
		_, n, _ := strings.Cut(k, ":")
		_, want, _ := r.svc.Active(n)
		if got := u.Get(); got != want {
			r.fail("C15", "updater-missed-update", "%s: after a clean poll with a quiet service the updater's Get returns %q, newest installed bytes are %q", k, got, want)
		}
	}
	d := r.st.VerifDump()
	doc, err := parseCache(r.cache.Data)
	if err != nil {
		r.fail("C13", "cache-unparsable", "cache document does not parse: %v", err)
	}
	for n, g := range d {
		av, aval, ok := r.svc.Active(n)
		if !ok {
			continue
		}
		if g.Version != av || g.Value != aval {
			r.fail("C11", "not-converged", "after a clean poll with a quiet service %q is at v%d, the service's active version is v%d", n, g.Version, av)
		}
		if doc != nil {
			c := doc[n]
			if c == nil || c.Secret == nil {
				r.fail("C13", "cache-missing", "after a clean poll the cache lacks %q", n)
				r.fail("C11", "cache-differs-after-poll", "after a clean poll the cache lacks %q, which the store serves at v%d", n, g.Version)
				if r.lookedUp(n) {
					r.fail("C16", "lookup-not-cached", "after a clean poll the cache lacks the looked-up %q", n)
				}
			} else if c.Secret.Version != g.Version || string(c.Secret.Value) != g.Value {
				r.fail("C13", "cache-stale", "after a clean poll the cache holds %q v%d, the store v%d", n, c.Secret.Version, g.Version)
				r.fail("C11", "cache-differs-after-poll", "after a clean poll the cache holds %q v%d, the store v%d", n, c.Secret.Version, g.Version)
				if r.lookedUp(n) {
					r.fail("C16", "lookup-not-cached", "after a clean poll the cache holds the looked-up %q at v%d, the store v%d", n, c.Secret.Version, g.Version)
				}
			}
		}
	}
}

// judge evaluates the end-of-execution oracles.
func (r *run) judge() {
	declared := map[string]bool{}
	for _, n := range r.sc.Declared {
		declared[n] = true
	}
	// reads: served values only; per reader monotone for declared names; floors after completed polls
	last := map[string]uint32{}
	for _, rd := range r.reads {
		ok := r.svc.Served[rd.name][rd.val] || r.startup[rd.name] == rd.val
		if !ok {
			r.fail("C12", "unserved-value", "%s read %q for %q, which the service never served for that name (served: %v, start-up cache: %q)", rd.thread, rd.val, rd.name, keys(r.svc.Served[rd.name]), r.startup[rd.name])
		}
		if declared[rd.name] {
			k := rd.thread + ":" + rd.name
			if v := verOf(rd.val); v < last[k] && !r.sc.backwards() {
				r.fail("C12", "reader-went-backwards", "%s read %q v%d after it had already seen v%d (the service only moved forward)", rd.thread, rd.name, v, last[k])
			} else {
				last[k] = v
			}
			for _, rf := range r.refr {
				if rf.err != nil || rf.end > rd.begin {
					continue
				}
				// Once a poll has completed, a later read returns what the store held at that moment (which
				// includes everything that poll installed) or newer, and at least what was active on the
				// service when the poll's round began. Requests are not attributed to polls by the time
				// window of the call: another round's request may fall into it without belonging to it.
				inst := rf.atEnd[rd.name]
				if f := rf.floor[rd.name]; f > inst {
					inst = f
				}
				if inst > 0 && verOf(rd.val) < inst && !r.sc.backwards() {
					r.fail("C12", "read-older-than-completed-poll", "%s read %q v%d after a poll had completed with v%d installed (or active on the service when its round began)", rd.thread, rd.name, verOf(rd.val), inst)
				}
			}
		}
	}
	// a name for which a handle was handed out is never dropped (C19); reading it never panics (C12, via ReportPanic)
	d := r.st.VerifDump()
	for k := range r.handles {
		_, n, _ := strings.Cut(k, ":")
		if _, ok := d[n]; !ok {
			r.fail("C19", "dropped-with-live-handle", "%q was dropped from the store although a handle for it had been handed out (%s)", n, k)
		}
	}
	// lookups (C16)
	for k, begin := range r.pendingAtEnd {
		tn, _, _ := strings.Cut(k, ":")
		if noDeadline(r.sc.CtxFor[tn]) && r.endAt-begin > 5*time.Minute {
			r.fail("C16", "no-deadline-lookup-never-returns", "%s: LookupSecret with a context that has no deadline, begun at %v, had not returned at %v (safety limit: five minutes)", k, begin, r.endAt)
		} else if r.sc.CtxFor[tn] == "1s" && r.endAt-begin > time.Second || r.sc.CtxFor[tn] == "10m" && r.endAt-begin > 10*time.Minute {
			r.fail("C16", "lookup-outlives-its-deadline", "%s: LookupSecret (context %s) begun at %v had not returned at %v", k, r.sc.CtxFor[tn], begin, r.endAt)
		}
	}
	nOK := 0
	for _, l := range r.looks {
		if _, was := r.pendingAtEnd[l.thread+":"+l.name]; was {
			continue // finished only because the harness made the service answer at teardown; judged above
		}
		if noDeadline(l.ctxKind) && l.end-l.begin > 5*time.Minute {
			r.fail("C16", "no-deadline-lookup-late", "%s: LookupSecret(%q) with no deadline took %v (safety limit: five minutes)", l.thread, l.name, l.end-l.begin)
		}
		if l.ok {
			nOK++
			if !r.svc.Served[l.name][l.handleVal] && r.startup[l.name] != l.handleVal {
				r.fail("C16", "lookup-handle-value", "%s: LookupSecret(%q) succeeded but its handle yields %q, which the service never served", l.thread, l.name, l.handleVal)
			}
			if _, ok := d[l.name]; !ok {
				r.fail("C16", "lookup-not-installed", "%s: LookupSecret(%q) succeeded but the store does not hold the secret afterwards", l.thread, l.name)
			}
			continue
		}
		if l.ctxErrAtEnd == nil && !r.sc.offers(l.name, "fail") {
			// the caller's own context is live and the service never answered with an error
			if !(noDeadline(l.ctxKind) && l.end-l.begin >= 5*time.Minute) {
				r.fail("C16", "failed-for-someone-elses-cancellation", "%s: LookupSecret(%q) failed with %q after %v although its own context (%q) is live and the service reported no error", l.thread, l.name, l.err, l.end-l.begin, l.ctxKind)
			}
		}
	}
	if nOK == 0 && len(r.looks) > 0 {
		for _, l := range r.looks {
			if _, known := r.startup[l.name]; known {
				continue
			}
			declared := false
			for _, n := range r.sc.Declared {
				declared = declared || n == l.name
			}
			// A caller that gave up (its own context ended) while the service was answering its request does
			// not make the request a failed one: the value the service served may be installed.  Only a name
			// for which the service never answered successfully must be absent.
			served := false
			for _, q := range r.svc.Log {
				if q.Name == l.name && strings.HasPrefix(q.Result, "v") {
					served = true
				}
			}
			if r.sc.Latency > 0 && !r.svc.IgnoreCtx {
				// a slow service that honours the request's context: an answer that arrives only after every
				// caller of the name has been told that its lookup failed came from a request that outlived
				// all the callers it was sent for (an answer that arrives while a caller is still waiting - and
				// is then overtaken by that caller's cancellation - is the excusable case above)
				var lastEnd time.Duration
				for _, l2 := range r.looks {
					if l2.name == l.name && l2.end > lastEnd {
						lastEnd = l2.end
					}
				}
				served = false
				for _, q := range r.svc.Log {
					if q.Name == l.name && strings.HasPrefix(q.Result, "v") && q.At+r.sc.Latency <= lastEnd {
						served = true
					}
				}
			}
			if _, ok := d[l.name]; ok && !declared && !served {
				r.fail("C16", "failed-lookup-installed", "every LookupSecret(%q) failed and the service never answered a request for it successfully, yet the store holds the secret", l.name)
			}
		}
	}
	if !r.sc.offers("", "hang") && len(r.cancels) == 0 {
		// without cancellations there is no retry: at most one request per lookup call
		cnt := map[string]int{}
		for _, q := range r.svc.Log {
			if !q.Cond {
				cnt[q.Name]++
			}
		}
		calls := map[string]int{}
		for _, l := range r.looks {
			calls[l.name]++
		}
		for n, c := range calls {
			if cnt[n] > c {
				r.fail("C16", "lookup-retried", "%d LookupSecret(%q) calls caused more than %d requests (no automatic retry is allowed)", c, n, c)
			}
		}
	}
	// cadence of the background poller (real time.Ticker under the virtual clock)
	if iv := r.sc.Interval; iv > 0 {
		// a poll round asks for each name at most once: a name that repeats starts the next round
		var at []time.Duration
		inRound := map[string]bool{}
		for _, q := range r.svc.Log[:min(r.logAtEnd, len(r.svc.Log))] {
			if !q.Cond {
				continue
			}
			if len(at) == 0 || inRound[q.Name] {
				at = append(at, q.At)
				inRound = map[string]bool{}
			}
			inRound[q.Name] = true
		}
		lo, hi := iv-iv/10, iv+iv/10
		prev := time.Duration(0)
		for i, a := range at {
			if gap := a - prev; gap < lo || gap > hi {
				r.fail("C11", "poll-cadence", "background poll %d came %v after the previous one (interval %v, allowed %v..%v); poll times %v", i, gap, iv, lo, hi, at)
				break
			}
			prev = a
		}
		if want := int(r.endAt / hi); len(at) < want {
			r.fail("C11", "poll-cadence-missing", "only %d background polls in %v with interval %v (at least %d expected); poll times %v", len(at), r.endAt, iv, want, at)
		}
	}
	// polls: at most one request per name in flight
	for n, m := range r.svc.MaxInfl {
		if m > 1 && strings.HasPrefix(n, "poll:") {
			r.fail("C11", "polls-not-coalesced", "%d poll requests for %q were in flight at the same time (overlapping refreshes must share one round)", m, n[5:])
		} else if m > 1 {
			r.fail("C16", "concurrent-lookups-not-shared", "%d lookup requests for %q were in flight at the same time", m, n)
		}
	}
}

func (sc *scen) offers(name, outcome string) bool {
	outs := sc.Outcomes
	if o, ok := sc.OutcomesFor[name]; ok {
		outs = o
	}
	for _, o := range outs {
		if o == outcome {
			return true
		}
	}
	if name == "" {
		for _, os := range sc.OutcomesFor {
			for _, o := range os {
				if o == outcome {
					return true
				}
			}
		}
	}
	return false
}

func (sc *scen) backwards() bool {
	for _, e := range sc.Events {
		if strings.HasPrefix(e, "srv-back") {
			return true
		}
	}
	return false
}

// noDeadline: a context without a deadline (plain, or cancellable by an event) gets the five-minute safety limit.
func noDeadline(kind string) bool { return kind == "" || kind == "cancel" || kind == "patient" }

func keys(m map[string]bool) []string {
	var out []string
	for k := range m {
		out = append(out, k)
	}
	sort.Strings(out)
	return out
}

var _ = hx.Scratch
