package store

import "encoding/base64"

func b64(s string) string { return base64.StdEncoding.EncodeToString([]byte(s)) }
