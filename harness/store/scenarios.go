package store

import (
	"testing"
	"time"

	"verif/hx"
	"verif/report"
)

func mk(props map[string]bool, scs ...*scen) []hx.Scenario {
	var out []hx.Scenario
	for _, sc := range scs {
		var sink []violation
		out = append(out, hx.Scenario{Name: sc.Name, Make: sc.harness(props, &sink)})
	}
	return out
}

// scenarios shared by C11, C12, C13.
func pollScenarios() []*scen {
	return []*scen{
		{Name: "S1 reader(2 reads) || Refresh || server change", Declared: []string{"d"},
			Threads: map[string][]string{"reader": {"secret:d", "read:d", "read:d"}, "refresher": {"refresh"}}, Events: []string{"srv-put:d"}},
		{Name: "S5 two readers || two polls installing v2, v3", Declared: []string{"d"},
			Threads: map[string][]string{"r1": {"secret:d", "read:d", "read:d"}, "r2": {"secret:d", "read:d"}, "p1": {"refresh"}, "p2": {"refresh"}}, Events: []string{"srv-put:d", "srv-put:d"}},
		{Name: "A two Refresh callers || ticker tick || server change, two names, both map orders", Declared: []string{"a", "b"}, Ticker: true, MapOrder: true,
			Threads: map[string][]string{"p1": {"refresh"}, "p2": {"refresh"}}, Events: []string{"srv-put:a", "tick"}},
		{Name: "B Refresh || server changes between the two per-name requests", Declared: []string{"a", "b"}, MapOrder: true,
			Threads: map[string][]string{"p1": {"refresh", "refresh"}}, Events: []string{"srv-put:a", "srv-put:b"}},
		{Name: "D Refresh whose caller is cancelled || second Refresh || server forward then back", Declared: []string{"a"}, CtxFor: map[string]string{"p1": "cancel"},
			Threads: map[string][]string{"p1": {"refresh"}, "p2": {"refresh"}}, Events: []string{"srv-put:a", "srv-back:a", "cancel:p1"}},
		{Name: "S10 two declared names, a reader each, two polls with failing requests", Thorough: true, Declared: []string{"a", "b"}, Outcomes: []string{"ok", "fail"},
			Threads: map[string][]string{"ra": {"secret:a", "read:a", "read:a"}, "rb": {"secret:b", "read:b"}, "p1": {"refresh"}, "p2": {"refresh"}}, Events: []string{"srv-put:a", "srv-put:b"}},
		{Name: "E reader || Refresh whose caller is cancelled || second Refresh || two server changes", Declared: []string{"a"}, CtxFor: map[string]string{"p1": "cancel"},
			Threads: map[string][]string{"reader": {"secret:a", "read:a", "read:a", "read:a"}, "p1": {"refresh"}, "p2": {"refresh"}}, Events: []string{"srv-put:a", "srv-put:a", "cancel:p1"}},
		{Name: "E2 reader || cancelled Refresh || second Refresh || scripted environment (change, cancel, change)", Declared: []string{"a"}, CtxFor: map[string]string{"p1": "cancel"},
			Threads: map[string][]string{"reader": {"secret:a", "read:a", "read:a", "read:a"}, "p1": {"refresh"}, "p2": {"refresh"}, "env": {"srvput:a", "cancelctx:p1", "srvput:a"}}},
		{Name: "C Refresh with failing requests, then convergence", Declared: []string{"a", "b"}, Outcomes: []string{"ok", "fail"},
			Threads: map[string][]string{"p1": {"refresh"}, "reader": {"secret:a", "read:a", "read:a"}}, Events: []string{"srv-put:a"}},
	}
}

func lookupScenarios() []*scen {
	return []*scen{
		{Name: "S2 reader || LookupSecret(new) || Refresh", Declared: []string{"d"},
			Threads: map[string][]string{"reader": {"secret:d", "read:d"}, "looker": {"lookup:u", "read:u"}, "refresher": {"refresh"}}, Events: []string{"srv-put:u"}},
		{Name: "S3 reader || Close || tick", Declared: []string{"d"}, Ticker: true,
			Threads: map[string][]string{"reader": {"secret:d", "read:d", "read:d"}, "closer": {"close"}}, Events: []string{"tick", "srv-put:d"}},
		{Name: "S4 poll that expires a cached name || Secret(name) then read", Declared: []string{"d"}, Expiry: 100 * time.Second, ClockAdd: 0,
			Initial: map[string]cInit{"d": {Ver: 1, LastAccess: -5}, "plum": {Ver: 1, LastAccess: -1000}, "pear": {Ver: 1, LastAccess: 0}},
			Threads: map[string][]string{"poller": {"refresh"}, "late": {"secret:plum", "read:plum", "read:plum"}, "late2": {"secret:pear", "read:pear"}}},
		{Name: "S7 NewUpdater(new name) || LookupSecret(same name) || poll with server change", Declared: []string{"d"},
			Threads: map[string][]string{"w": {"upd:u", "updget:u"}, "l": {"lookup:u", "read:u"}, "p": {"refresh"}}, Events: []string{"srv-put:u"}},
		{Name: "S8 Close || LookupSecret(new) || Refresh", Thorough: true, Declared: []string{"d"},
			Threads: map[string][]string{"closer": {"close"}, "l": {"lookup:u", "read:u"}, "p": {"refresh"}, "reader": {"secret:d", "read:d"}}},
		{Name: "S11 poll that expires a cached name || NewUpdater(name) || server change", Declared: []string{"d"}, Expiry: 100 * time.Second, ClockAdd: 0,
			Initial: map[string]cInit{"d": {Ver: 1, LastAccess: -5}, "plum": {Ver: 1, LastAccess: -1000}},
			Threads: map[string][]string{"poller": {"refresh"}, "w": {"upd:plum", "updget:plum"}}, Events: []string{"srv-put:plum"}},
		{Name: "S12 two readers of one cached name, the clock moves between their reads", Declared: []string{"d"}, Expiry: 1000 * time.Second,
			Initial: map[string]cInit{"d": {Ver: 1, LastAccess: -5}, "plum": {Ver: 1, LastAccess: -5}},
			Threads: map[string][]string{"ra": {"secret:plum", "read:plum"}, "rb": {"secret:plum", "clockadd:100s", "read:plum"}}},
		{Name: "S9 Refresh installing an update || LookupSecret(new) || reader", Declared: []string{"d"},
			Threads: map[string][]string{"p": {"refresh"}, "l": {"lookup:u", "read:u"}, "reader": {"secret:d", "read:d"}}, Events: []string{"srv-put:d"}},
		{Name: "S6 two lookups of the same new name || poll", Declared: []string{"d"},
			Threads: map[string][]string{"l1": {"lookup:u", "read:u"}, "l2": {"lookup:u", "read:u"}, "p": {"refresh"}}, Events: []string{"srv-put:u"}},
	}
}

func runSched(t *testing.T, env *report.Env, rep *report.Report, props map[string]bool, section string, scs []*scen, quickBound, thoroughBound int) {
	bound := quickBound
	if env.Thorough() {
		bound = thoroughBound
	}
	if !env.Thorough() {
		var quick []*scen
		for _, sc := range scs {
			if !sc.Thorough {
				quick = append(quick, sc)
			}
		}
		scs = quick
	}
	list := mk(props, scs...)
	hx.ExploreScenarios(t, env, rep, section, list, bound, true, nil)
}

func lookupTimingScenarios() []*scen {
	m16 := 16 * time.Minute
	return []*scen{
		{Name: "L1 one caller without deadline, service never answers", Declared: []string{"d"}, UseTime: true, Horizon: m16,
			OutcomesFor: map[string][]string{"u": {"hang"}}, Threads: map[string][]string{"a": {"lookup:u"}}},
		{Name: "L2 callers with 1s deadline and 10m deadline, service answers or hangs", Declared: []string{"d"}, UseTime: true, Horizon: m16,
			OutcomesFor: map[string][]string{"u": {"ok", "hang"}}, CtxFor: map[string]string{"a": "1s", "b": "10m"},
			Threads: map[string][]string{"a": {"lookup:u"}, "b": {"lookup:u", "read:u"}}},
		{Name: "L3 cancelled caller and caller without deadline, service answers or hangs", Declared: []string{"d"}, UseTime: true, Horizon: m16,
			OutcomesFor: map[string][]string{"u": {"ok", "hang"}}, CtxFor: map[string]string{"a": "cancel"}, Events: []string{"cancel:a"},
			Threads: map[string][]string{"a": {"lookup:u"}, "b": {"lookup:u", "read:u"}}},
		{Name: "L4 two callers, service answers or fails", Declared: []string{"d"},
			OutcomesFor: map[string][]string{"u": {"ok", "fail"}}, Threads: map[string][]string{"a": {"lookup:u", "read:u"}, "b": {"lookup:u", "read:u"}}},
		{Name: "L5 caller without deadline behind a caller with a 10m deadline, service never answers", Declared: []string{"d"}, UseTime: true, Horizon: 21 * time.Minute,
			OutcomesFor: map[string][]string{"u": {"hang"}}, CtxFor: map[string]string{"a": "10m"},
			Threads: map[string][]string{"a": {"lookup:u"}, "b": {"lookup:u"}}},
		{Name: "L7 NewUpdater without deadline, service never answers", Declared: []string{"d"}, UseTime: true, Horizon: m16,
			OutcomesFor: map[string][]string{"u": {"hang"}}, Threads: map[string][]string{"a": {"upd:u"}}},
		{Name: "L8 NewUpdater without deadline behind a LookupSecret with a 10m deadline, service answers or hangs", Declared: []string{"d"}, UseTime: true, Horizon: m16,
			OutcomesFor: map[string][]string{"u": {"ok", "hang"}}, CtxFor: map[string]string{"a": "10m"},
			Threads: map[string][]string{"a": {"lookup:u"}, "b": {"upd:u", "updget:u"}}},
		{Name: "L9 one caller without deadline, the service fails with an error that looks like a timeout", Declared: []string{"d"}, UseTime: true, Horizon: m16,
			OutcomesFor: map[string][]string{"u": {"fail"}}, CtxLikeErr: true, Threads: map[string][]string{"a": {"lookup:u"}}},
		{Name: "L10 two callers, the service fails with an error that looks like a timeout", Declared: []string{"d"}, UseTime: true, Horizon: m16,
			OutcomesFor: map[string][]string{"u": {"fail"}}, CtxLikeErr: true, Threads: map[string][]string{"a": {"lookup:u"}, "b": {"lookup:u"}}},
		{Name: "L11 a patient caller behind three successive leaders that give up", Declared: []string{"d"}, UseTime: true, Horizon: m16,
			OutcomesFor: map[string][]string{"u": {"hang-unless-patient"}}, CtxFor: map[string]string{"l1": "cancel", "l2": "cancel", "l3": "cancel", "p": "patient"},
			Threads: map[string][]string{"l1": {"lookup:u"}, "l2": {"lookup:u"}, "l3": {"lookup:u"}, "p": {"lookup:u", "read:u"}, "zenv": {"cancelctx:l1", "cancelctx:l2", "cancelctx:l3"}}},
		{Name: "L12 caller with a 1s deadline, the service needs 30s for its answer", Declared: []string{"d"}, UseTime: true, Horizon: m16, Latency: 30 * time.Second,
			CtxFor: map[string]string{"a": "1s"}, Threads: map[string][]string{"a": {"lookup:u"}}},
		{Name: "L13 callers with a 1s deadline and a cancelled one, the service needs 30s for its answer", Declared: []string{"d"}, UseTime: true, Horizon: m16, Latency: 30 * time.Second,
			CtxFor: map[string]string{"a": "1s", "b": "cancel"}, Events: []string{"cancel:b"}, Threads: map[string][]string{"a": {"lookup:u"}, "b": {"lookup:u"}}},
		{Name: "L6 three callers (none, 1s, cancelled), service answers or hangs", Declared: []string{"d"}, UseTime: true, Horizon: m16,
			OutcomesFor: map[string][]string{"u": {"ok", "hang"}}, CtxFor: map[string]string{"b": "1s", "c": "cancel"}, Events: []string{"cancel:c"},
			Threads: map[string][]string{"a": {"lookup:u", "read:u"}, "b": {"lookup:u"}, "c": {"lookup:u"}}},
	}
}

func cadenceScenarios() []*scen {
	return []*scen{
		{Name: "T10s background polling with a real ticker, interval 10s, all jitter choices", Declared: []string{"a"}, Interval: 10 * time.Second, UseTime: true, Horizon: 80 * time.Second,
			Threads: map[string][]string{"clock": {"sleep:56s"}}, Events: []string{"srv-put:a"}},
		{Name: "T10s-slow background polling, interval 10s, every request takes 1s", Declared: []string{"a", "b"}, Interval: 10 * time.Second, Latency: time.Second, UseTime: true, Horizon: 80 * time.Second,
			Threads: map[string][]string{"clock": {"sleep:56s"}}, Events: []string{"srv-put:a"}},
		{Name: "T10s-fail background polling, interval 10s, requests may fail", Declared: []string{"a"}, Interval: 10 * time.Second, UseTime: true, Horizon: 80 * time.Second, Outcomes: []string{"ok", "fail"},
			Threads: map[string][]string{"clock": {"sleep:56s"}}, Events: []string{"srv-put:a"}},
		{Name: "T1h background polling with a real ticker, interval 1h, all jitter choices", Declared: []string{"a", "b"}, Interval: time.Hour, UseTime: true, Horizon: 8 * time.Hour,
			Threads: map[string][]string{"clock": {"sleep:5h36m"}}, Events: []string{"srv-put:b"}},
	}
}
