package store

import (
	"context"
	"fmt"
	"os"
	"path"
	"path/filepath"
	"sort"
	"strings"
	"testing"
	"testing/synctest"
	"time"

	"github.com/tailscale/setec/client/setec"

	"verif/hx"
	"verif/report"
)

// C10: store construction.  Every configuration is one execution in a
// synctest bubble (virtual time); there is a single goroutine, so the only
// nondeterminism is the environment script, which is enumerated.

type c10cfg struct {
	list               string   // declared-list shape
	names              []string // as given (with duplicates)
	structs            bool
	mixed              string         // "" | "secrets+tag" (Secrets [a,b] plus a struct tagged a) | "aba" (one struct with fields a, b, a)
	cache              string         // none empty partial complete stale malformed readerr
	script             map[string]int // failures before success; -1 = forever
	ctx                string         // none expired 5ms 3s 10s
	ignoreCtx, ctxLike bool
	expiry             time.Duration // StoreConfig.ExpiryAge (declared secrets never expire, however old the cache's stamps)
	latency            time.Duration // every request takes this long before it is answered (and gives up when its context ends first)
	failKind           string        // "" | denied | notfound: what the scripted failures say (grants and secrets may arrive while a program starts)
	customTicker       bool          // StoreConfig.PollTicker is set (to a ticker that never fires): start-up retries must not depend on it
}

func (c c10cfg) String() string {
	var sc []string
	for _, n := range []string{"a", "b"} {
		if k, ok := c.script[n]; ok {
			sc = append(sc, fmt.Sprintf("%s:fail^%d", n, k))
		}
	}
	ex := ""
	if c.customTicker {
		ex = " custom-poll-ticker"
	}
	if c.failKind != "" {
		ex += " failures-say=" + c.failKind
	}
	if c.latency > 0 {
		ex += fmt.Sprintf(" every-request-takes=%v", c.latency)
	}
	if c.expiry > 0 {
		ex = fmt.Sprintf(" expiry-age=%v", c.expiry)
	}
	return fmt.Sprintf("list=%s cache=%s script=[%s] ctx=%s service-ignores-ctx=%v failures-look-like-timeouts=%v%s", c.list, c.cache, strings.Join(sc, " "), c.ctx, c.ignoreCtx, c.ctxLike, ex)
}

func roundTime(r int) time.Duration {
	var t time.Duration
	w := time.Millisecond
	for i := 0; i < r; i++ {
		t += w
		if w < 4*time.Second {
			w += w
		}
	}
	return t
}

type c10out struct {
	err     error
	elapsed time.Duration
	calls   map[string][]time.Duration
	values  map[string]string
	fields  string
	panic   any
}

type sAB struct {
	A string `setec:"a"`
	B []byte `setec:"b"`
}
type sA struct {
	A string `setec:"a"`
}
type sABA struct {
	A  string `setec:"a"`
	B  []byte `setec:"b"`
	A2 string `setec:"a"`
}

func runC10(t *testing.T, c c10cfg) (out c10out) {
	out.calls = map[string][]time.Duration{}
	out.values = map[string]string{}
	synctest.Test(t, func(t *testing.T) {
		defer func() {
			if r := recover(); r != nil {
				out.panic = r
			}
		}()
		start := time.Now()
		svc := NewSvc()
		svc.now = func() time.Duration { return time.Since(start) }
		svc.IgnoreCtx, svc.CtxLikeErr, svc.MaxReqs = c.ignoreCtx, c.ctxLike, 400
		svc.FailKind = c.failKind
		svc.Latency = c.latency
		uniq := map[string]bool{}
		for _, n := range c.names {
			uniq[n] = true
		}
		for n := range uniq {
			svc.Put(n) // v1
			svc.Put(n) // v2 active
			if k := c.script[n]; k < 0 {
				svc.FailNext(n, 1<<30)
			} else {
				svc.FailNext(n, k)
			}
		}
		var cache setec.Cache
		doc := func(names []string, ver uint32) string {
			var parts []string
			for _, n := range names {
				parts = append(parts, fmt.Sprintf(`"%s":{"secret":{"Value":"%s","Version":%d},"lastAccess":"5"}`, n, b64(Value(n, ver)), ver))
			}
			return "{" + strings.Join(parts, ",") + "}"
		}
		var all []string
		for n := range uniq {
			all = append(all, n)
		}
		sort.Strings(all)
		switch c.cache {
		case "none":
		case "empty":
			cache = &HCache{}
		case "partial":
			cache = &HCache{Data: []byte(doc(all[:1], 2))}
		case "complete":
			cache = &HCache{Data: []byte(doc(all, 2))}
		case "stale":
			cache = &HCache{Data: []byte(doc(all, 1))}
		case "complete-empty-values":
			// what a store writes for secrets whose value is empty (the service accepts those): valid entries
			var parts []string
			for _, n := range all {
				parts = append(parts, fmt.Sprintf(`"%s":{"secret":{"Value":"","Version":2},"lastAccess":"5"}`, n))
			}
			cache = &HCache{Data: []byte("{" + strings.Join(parts, ",") + "}")}
		case "malformed":
			cache = &HCache{Data: []byte(`{"a":{"secret":{"Value":"eA==","Version":1}`)}
		case "invalid-entry":
			cache = &HCache{Data: []byte(`{"a":{"secret":null,"lastAccess":"1"},"b":{"secret":{"Value":"eA==","Version":1}}}`)}
		case "type-error":
			// valid JSON whose entry for "a" has a mistyped member (damaged base64): the whole document must be ignored
			parts := []string{`"a":{"secret":{"Value":"%%%%","Version":3},"lastAccess":"1"}`}
			for _, n := range all {
				if n != "a" {
					parts = append(parts, fmt.Sprintf(`"%s":{"secret":{"Value":"%s","Version":1},"lastAccess":"5"}`, n, b64(Value(n, 1))))
				}
			}
			cache = &HCache{Data: []byte("{" + strings.Join(parts, ",") + "}")}
		case "type-error-number":
			cache = &HCache{Data: []byte(`{"a":7,"b":{"secret":{"Value":"` + b64(Value("b", 1)) + `","Version":1},"lastAccess":"5"}}`)}
		case "readerr":
			cache = &HCache{FailR: true}
		}
		ctx := context.Background()
		var cancel context.CancelFunc = func() {}
		switch c.ctx {
		case "none":
			ctx, cancel = context.WithCancel(ctx)
			tm := time.AfterFunc(60*time.Second, cancel)
			defer tm.Stop()
		case "expired":
			ctx, cancel = context.WithCancel(ctx)
			cancel()
		case "5ms":
			ctx, cancel = context.WithTimeout(ctx, 5*time.Millisecond)
		case "3s":
			ctx, cancel = context.WithTimeout(ctx, 3*time.Second)
		case "10s":
			ctx, cancel = context.WithTimeout(ctx, 10*time.Second)
		}
		defer cancel()
		cfg := setec.StoreConfig{Client: svc, Cache: cache, PollInterval: -1, ExpiryAge: c.expiry, Logf: func(string, ...any) {}}
		if c.customTicker {
			cfg.PollInterval = time.Hour
			cfg.PollTicker = neverTicker{}
		}
		var vab sAB
		var va sA
		var vaba sABA
		if c.mixed == "secrets+tag" {
			cfg.Secrets = []string{"a", "b"}
			cfg.Structs = []setec.Struct{{Value: &va}}
		} else if c.mixed == "aba" {
			cfg.Structs = []setec.Struct{{Value: &vaba}}
		} else if c.structs {
			if len(uniq) == 2 {
				cfg.Structs = []setec.Struct{{Value: &vab}}
			} else {
				cfg.Structs = []setec.Struct{{Value: &va}}
			}
		} else {
			cfg.Secrets = append([]string(nil), c.names...)
		}
		st, err := setec.NewStore(ctx, cfg)
		out.err = err
		out.elapsed = time.Since(start)
		for _, r := range svc.Log {
			out.calls[r.Name] = append(out.calls[r.Name], r.At)
		}
		if st != nil {
			for n := range uniq {
				out.values[n] = string(st.Secret(n).Get())
			}
			if c.mixed == "secrets+tag" {
				out.fields = va.A
			} else if c.mixed == "aba" {
				out.fields = vaba.A + "|" + string(vaba.B) + "|" + vaba.A2
			} else if c.structs {
				if len(uniq) == 2 {
					out.fields = vab.A + "|" + string(vab.B)
				} else {
					out.fields = va.A
				}
			}
			st.Close()
		}
	})
	return out
}

// c10Expect is the reference model.
func c10Check(c c10cfg, o c10out) (kind, msg string) {
	if o.panic != nil {
		return "panic", fmt.Sprintf("NewStore panicked: %v", o.panic)
	}
	uniq := map[string]bool{}
	for _, n := range c.names {
		uniq[n] = true
	}
	var all []string
	for n := range uniq {
		all = append(all, n)
	}
	sort.Strings(all)
	cached := map[string]uint32{}
	switch c.cache {
	case "partial":
		cached[all[0]] = 2
	case "complete":
		for _, n := range all {
			cached[n] = 2
		}
	case "stale":
		for _, n := range all {
			cached[n] = 1
		}
	case "complete-empty-values":
		for _, n := range all {
			cached[n] = 2
		}
	}
	var deadline time.Duration
	switch c.ctx {
	case "none":
		deadline = 60 * time.Second
	case "expired":
		deadline = 0
	case "5ms":
		deadline = 5 * time.Millisecond
	case "3s":
		deadline = 3 * time.Second
	case "10s":
		deadline = 10 * time.Second
	}
	// rounds
	maxRound := 0
	forever := false
	var missing []string
	for _, n := range all {
		if _, ok := cached[n]; ok {
			continue
		}
		missing = append(missing, n)
		k := c.script[n]
		if k < 0 {
			forever = true
		} else if k > maxRound {
			maxRound = k
		}
	}
	// The property fixes no exact retry schedule, only "pausing at most a few seconds between rounds";
	// the oracle therefore brackets the outcome instead of demanding the reference schedule:
	//   slow  = latest instant by which every secret has been obtained if each pause is at most maxPause
	//   an error is only legitimate once the context has ended, and must then come promptly;
	//   a success must come with the right values and, if everything is obtainable before the context
	//   ends even with the longest allowed pauses, an error is not acceptable.
	const maxPause = 5 * time.Second
	slow := time.Duration(maxRound) * maxPause
	mustSucceed := len(missing) == 0 || (!forever && slow < deadline)
	mustFail := len(missing) > 0 && forever
	success := o.err == nil
	doneAt := roundTime(maxRound)
	if mustSucceed && !success {
		return "spurious-failure", fmt.Sprintf("NewStore failed (%v) although every declared secret was obtainable well before the context ended at %v (reference schedule: %v)", o.err, deadline, doneAt)
	}
	if mustFail && success && !c.ignoreCtx {
		return "spurious-success", fmt.Sprintf("NewStore succeeded although a declared secret could never be obtained (context ends at %v)", deadline)
	}
	if success {
		if len(missing) == 0 && o.elapsed != 0 {
			return "return-time", fmt.Sprintf("NewStore needed %v although nothing had to be fetched", o.elapsed)
		}
		if o.elapsed > slow && len(missing) > 0 {
			return "return-time", fmt.Sprintf("NewStore returned after %v; with pauses of at most %v all secrets are obtained by %v", o.elapsed, maxPause, slow)
		}
		if o.elapsed > deadline {
			return "not-prompt", fmt.Sprintf("NewStore returned after %v; the context ended at %v", o.elapsed, deadline)
		}
		for _, n := range all {
			want := Value(n, 2)
			if v, ok := cached[n]; ok {
				want = Value(n, v)
				if c.cache == "complete-empty-values" {
					want = ""
				}
			}
			if o.values[n] != want {
				return "value", fmt.Sprintf("Secret(%q) = %q, want %q", n, o.values[n], want)
			}
		}
		if c.mixed == "secrets+tag" {
			if o.fields != o.values["a"] {
				return "struct-fields", fmt.Sprintf("struct field %q, want %q", o.fields, o.values["a"])
			}
		} else if c.mixed == "aba" {
			if want := o.values["a"] + "|" + o.values["b"] + "|" + o.values["a"]; o.fields != want {
				return "struct-fields", fmt.Sprintf("struct fields %q, want %q", o.fields, want)
			}
		} else if c.structs {
			want := o.values["a"]
			if len(all) == 2 {
				want += "|" + o.values["b"]
			}
			if o.fields != want {
				return "struct-fields", fmt.Sprintf("struct fields %q, want %q", o.fields, want)
			}
		}
	} else {
		if o.elapsed < deadline {
			return "gave-up-early", fmt.Sprintf("NewStore gave up after %v (%v) while the caller's context was still live (it ends at %v)", o.elapsed, o.err, deadline)
		}
		if o.elapsed > deadline+maxPause {
			return "not-prompt", fmt.Sprintf("NewStore gave up only after %v; the context ended at %v", o.elapsed, deadline)
		}
	}
	// request discipline
	for _, n := range all {
		calls := o.calls[n]
		if _, ok := cached[n]; ok {
			if len(calls) != 0 {
				return "cached-refetched", fmt.Sprintf("%q had a valid cache entry but was requested %d times", n, len(calls))
			}
			continue
		}
		k := c.script[n]
		if k >= 0 && len(calls) > k+1 {
			return "refetched", fmt.Sprintf("%q was obtained at its request %d but requested %d times", n, k+1, len(calls))
		}
		if success && k >= 0 && len(calls) != k+1 && !c.ignoreCtx {
			return "request-count", fmt.Sprintf("%q: %d requests, want %d", n, len(calls), k+1)
		}
		for i := 1; i < len(calls); i++ {
			if gap := calls[i] - calls[i-1]; gap > maxPause {
				return "backoff-cap", fmt.Sprintf("%q: %v between consecutive attempts (at %v and %v)", n, gap, calls[i-1], calls[i])
			}
		}
	}
	return "", ""
}

func checkC10(t *testing.T, env *report.Env, rep *report.Report) {
	rep.Assumptions = []string{
		"virtual time (testing/synctest): the retry schedule 1,2,4,...,4096 ms is judged exactly on the bubble's clock",
		"'no deadline' is a context without a deadline that the harness cancels after 60 virtual seconds",
		"service scripts per secret: success after k failures for k in {0,1,2,3,12,13,14}, or failure forever; failures are plain errors or look like timeouts that are not the caller's; the service either honours the caller's context or keeps answering from its script after it ended",
	}
	sec := rep.Add(&report.Section{Name: "construction-all-configurations", Engine: "enum", Exhaustive: true, Extra: map[string]int64{}, Outcomes: map[string]int64{},
		Rule: "declared-list shape(8, incl. names repeated across Secrets and struct tags) × cache state(11, incl. a complete cache of empty-valued secrets; those with valid entries also with an expiry age configured) × per-secret failure script(8 each) × context(5) × service error style(4; a further block makes the failures refusals or not-found answers, another makes every request take 6 s), each one NewStore execution under virtual time against the retry model; non-trivial = configurations in which at least one secret has to be fetched and at least one request fails"})
	lists := []struct {
		name    string
		names   []string
		structs bool
		mixed   string
	}{{"[a]", []string{"a"}, false, ""}, {"[a,b]", []string{"a", "b"}, false, ""}, {"[a,a]", []string{"a", "a"}, false, ""}, {"[b,a,b]", []string{"b", "a", "b"}, false, ""}, {"struct{a,b}", []string{"a", "b"}, true, ""}, {"struct{a}", []string{"a"}, true, ""},
		{"[a,b]+struct{a}", []string{"a", "b"}, true, "secrets+tag"}, {"struct{a,b,a}", []string{"a", "b"}, true, "aba"}}
	caches := []string{"none", "empty", "partial", "complete", "complete-empty-values", "stale", "malformed", "invalid-entry", "type-error", "type-error-number", "readerr"}
	scripts := []int{0, 1, 2, 3, 12, 13, 14, -1}
	if env.Thorough() {
		scripts = []int{0, 1, 2, 3, 4, 5, 10, 11, 12, 13, 14, 15, -1}
	}
	ctxs := []string{"none", "expired", "5ms", "3s", "10s"}
	idx := int64(0)
	for _, l := range lists {
		two := false
		for _, n := range l.names {
			two = two || n == "b"
		}
		for _, ca := range caches {
			for _, sa := range scripts {
				sbs := []int{0}
				if two {
					sbs = scripts
				}
				for _, sb := range sbs {
					for _, cx0 := range ctxs {
						for mode := 0; mode < 4; mode++ {
							cx := cx0
							idx++
							if !env.Mine(idx) {
								continue
							}
							for _, expiry := range expiries(ca) {
								c := c10cfg{list: l.name, names: l.names, structs: l.structs, mixed: l.mixed, cache: ca, script: map[string]int{"a": sa}, ctx: cx, ignoreCtx: mode&1 != 0, ctxLike: mode&2 != 0, expiry: expiry}
								if two {
									c.script["b"] = sb
								}
								o := runC10(t, c)
								sec.Evaluations++
								if sa != 0 || sb != 0 {
									sec.Nontrivial++
								}
								if o.err != nil {
									sec.Outcomes["error"]++
								} else {
									sec.Outcomes["ok"]++
								}
								if kind, msg := c10Check(c, o); kind != "" {
									rep.Violate(sec.Name, "construct/"+kind+": "+c.String(), c.String()+": "+msg, map[string]any{"config": c.String()})
								}
								if len(sec.Samples) < 3 && sa == 13 && cx == "10s" {
									sec.Samples = append(sec.Samples, map[string]any{"config": c.String(), "elapsed": o.elapsed.String(), "requests_a": len(o.calls["a"]), "err": fmt.Sprint(o.err)})
								}
							}
						}
					}
				}
			}
		}
	}
	sec.States, sec.Transitions = sec.Evaluations, sec.Evaluations

	if env.Shard != 0 {
		return
	}
	// failures of other kinds - refusals and not-found answers - are retried like any other: the grant or
	// the secret may arrive while the program starts (only a file-backed client gives up at once)
	for _, kind := range []string{"denied", "notfound"} {
		for _, l := range lists[:4] {
			for _, ca := range []string{"none", "partial"} {
				for _, sa := range []int{1, 2, 3, 12} {
					for _, sb := range []int{0, 2} {
						for _, cx := range []string{"none", "10s", "3s"} {
							c := c10cfg{list: l.name, names: l.names, cache: ca, script: map[string]int{"a": sa}, ctx: cx, failKind: kind}
							if len(l.names) > 1 {
								c.script["b"] = sb
							} else if sb != 0 {
								continue
							}
							o := runC10(t, c)
							sec.Evaluations++
							sec.Nontrivial++
							sec.Extra["refusal_and_not_found_failures"]++
							if kind, msg := c10Check(c, o); kind != "" {
								rep.Violate(sec.Name, "construct/"+kind+": "+c.String(), c.String()+": "+msg, map[string]any{"config": c.String()})
							}
						}
					}
				}
			}
		}
	}
	// a slow service: every request takes 6 s, the first one for "a" fails; only the caller's context bounds
	// how long start-up keeps trying
	for _, l := range lists[:2] {
		for _, ca := range []string{"none", "partial"} {
			if ca == "partial" && len(l.names) < 2 {
				continue
			}
			for _, cx := range []string{"none", "10s"} {
				c := c10cfg{list: l.name, names: l.names, cache: ca, script: map[string]int{"a": 1}, ctx: cx, latency: 6 * time.Second}
				if ca == "partial" {
					// "a" comes from the cache; the slow, once-failing fetch is b's
					c.script = map[string]int{"b": 1}
				}
				o := runC10(t, c)
				sec.Evaluations++
				sec.Nontrivial++
				sec.Extra["slow_service_configurations"]++
				bad := func(kind, msg string) {
					rep.Violate(sec.Name, "construct/"+kind+": "+c.String(), c.String()+": "+msg, map[string]any{"config": c.String()})
				}
				// scripted failures are immediate, answers take 6 s each: everything is obtainable within 20 s; with a 10 s context either outcome is possible, but giving up is only allowed once that context has ended
				switch cx {
				case "none":
					if o.err != nil {
						bad("gave-up-early", fmt.Sprintf("NewStore gave up after %v (%v) although the caller's context is live for 60 s and every secret is obtainable within 20 s", o.elapsed, o.err))
					}
				case "10s":
					if o.err == nil {
						if o.elapsed > 16*time.Second {
							bad("not-prompt", fmt.Sprintf("NewStore returned after %v; the context ended at 10 s", o.elapsed))
						}
					} else if o.elapsed < 10*time.Second {
						bad("gave-up-early", fmt.Sprintf("NewStore gave up after %v (%v) while the caller's context was still live (it ends at 10 s)", o.elapsed, o.err))
					} else if o.elapsed > 16*time.Second {
						bad("not-prompt", fmt.Sprintf("NewStore gave up only after %v; the context ended at 10 s", o.elapsed))
					}
				}
			}
		}
	}
	// the same with the caller's own poll ticker configured: the retry pauses of start-up are not polls
	for _, l := range lists[:2] {
		for _, sa := range []int{0, 1, 2, 3, 12} {
			for _, cx := range []string{"none", "10s", "3s"} {
				c := c10cfg{list: l.name, names: l.names, cache: "none", script: map[string]int{"a": sa}, ctx: cx, customTicker: true}
				if len(l.names) > 1 {
					c.script["b"] = 1
				}
				o := runC10(t, c)
				sec.Evaluations++
				sec.Nontrivial++
				sec.Extra["custom_poll_ticker_configurations"]++
				if kind, msg := c10Check(c, o); kind != "" {
					rep.Violate(sec.Name, "construct/"+kind+": "+c.String(), c.String()+": "+msg, map[string]any{"config": c.String()})
				}
			}
		}
	}
	sec.States, sec.Transitions = sec.Evaluations, sec.Evaluations
	c10Prefixes(t, rep)
	// FileClient and misconfiguration
	fcSec := rep.Add(&report.Section{Name: "file-client-and-misconfiguration", Engine: "enum", Exhaustive: true, Extra: map[string]int64{},
		Rule: "file-backed client with all / some declared secrets present; nil client; no secrets without lookup; empty name; duplicate-only lists: each must return at once (zero virtual time) with the stated result and no panic"})
	dir := hx.Scratch("c10-")
	defer os.RemoveAll(dir)
	fp := filepath.Join(dir, "secrets.json")
	os.WriteFile(fp, []byte(fmt.Sprintf(`{"a":{"secret":{"Value":"%s","Version":3}},"b":{"secret":{"TextValue":"bee","Version":1}},"e":{"secret":{"Value":"","Version":1}}}`, b64("ay"))), 0o600)
	type mc struct {
		name    string
		cfg     func() (setec.StoreConfig, error)
		wantErr bool
	}
	fcl := func() setec.StoreClient {
		c, err := setec.NewFileClient(fp)
		if err != nil {
			panic(err)
		}
		return c
	}
	cases := []mc{
		{"fileclient all present", func() (setec.StoreConfig, error) {
			return setec.StoreConfig{Client: fcl(), Secrets: []string{"a", "b"}}, nil
		}, false},
		{"fileclient one missing", func() (setec.StoreConfig, error) {
			return setec.StoreConfig{Client: fcl(), Secrets: []string{"a", "zz"}}, nil
		}, true},
		{"fileclient empty-valued secret is absent", func() (setec.StoreConfig, error) {
			return setec.StoreConfig{Client: fcl(), Secrets: []string{"e"}}, nil
		}, true},
		{"fileclient one missing, but a cache holds it (a cache entry comes first, whatever the client is)", func() (setec.StoreConfig, error) {
			return setec.StoreConfig{Client: fcl(), Secrets: []string{"a", "zz"}, Cache: &HCache{Data: []byte(`{"a":{"secret":{"Value":"` + b64("cached-a") + `","Version":2},"lastAccess":"5"},"zz":{"secret":{"Value":"` + b64("cached-zz") + `","Version":1},"lastAccess":"5"}}`)}}, nil
		}, false},
		{"nil client", func() (setec.StoreConfig, error) { return setec.StoreConfig{Secrets: []string{"a"}}, nil }, true},
		{"no secrets, no lookup", func() (setec.StoreConfig, error) { return setec.StoreConfig{Client: fcl()}, nil }, true},
		{"no secrets, lookup allowed", func() (setec.StoreConfig, error) { return setec.StoreConfig{Client: fcl(), AllowLookup: true}, nil }, false},
		{"empty name", func() (setec.StoreConfig, error) {
			return setec.StoreConfig{Client: fcl(), Secrets: []string{"a", ""}}, nil
		}, true},
		{"only empty name", func() (setec.StoreConfig, error) { return setec.StoreConfig{Client: fcl(), Secrets: []string{""}}, nil }, true},
	}
	for _, c := range cases {
		var err error
		var elapsed time.Duration
		var pan any
		synctest.Test(t, func(t *testing.T) {
			defer func() { pan = recover() }()
			start := time.Now()
			cfg, _ := c.cfg()
			cfg.PollInterval = -1
			cfg.Logf = func(string, ...any) {}
			ctx, cancel := context.WithTimeout(context.Background(), time.Hour)
			defer cancel()
			var st *setec.Store
			st, err = setec.NewStore(ctx, cfg)
			elapsed = time.Since(start)
			if st != nil {
				st.Close()
			}
		})
		fcSec.Evaluations++
		fcSec.Nontrivial++
		switch {
		case pan != nil:
			rep.Violate(fcSec.Name, "construct/misconfig-panic: "+c.name, fmt.Sprintf("%s: panic %v", c.name, pan), nil)
		case (err != nil) != c.wantErr:
			rep.Violate(fcSec.Name, "construct/misconfig-result: "+c.name, fmt.Sprintf("%s: err=%v, want error=%v", c.name, err, c.wantErr), nil)
		case elapsed != 0:
			rep.Violate(fcSec.Name, "construct/misconfig-waits: "+c.name, fmt.Sprintf("%s: returned only after %v of virtual time", c.name, elapsed), nil)
		}
		fcSec.Samples = append(fcSec.Samples, fmt.Sprintf("%s -> err=%v after %v", c.name, err, elapsed))
	}
	fcSec.States, fcSec.Transitions = fcSec.Evaluations, fcSec.Evaluations
}

// c10Prefixes: struct-tagged declarations under prefixes of every spelling (clean or not). The service
// can answer whatever spelling of the name is asked for, so the only demand is the statement's:
// every declared secret has a value, hence NewStore succeeds at once and the fields are filled.
func c10Prefixes(t *testing.T, rep *report.Report) {
	sec := rep.Add(&report.Section{Name: "struct-prefix-spellings", Engine: "enum", Exhaustive: true, Extra: map[string]int64{},
		Rule: "struct-tagged declarations under the prefixes \"\", p, p/, ./p, p//q, p/./q, /p × lookup allowed or not × cache none/empty, with a service that holds every spelling of every name: NewStore must succeed without retry and fill the fields with a value served for that field's name; non-trivial = prefixes that are not in clean form"})
	for _, prefix := range []string{"", "p", "p/", "./p", "p//q", "p/./q", "/p"} {
		for _, lookup := range []bool{false, true} {
			for _, withCache := range []bool{false, true} {
				var v sAB
				var err error
				var reqs []string
				synctest.Test(t, func(t *testing.T) {
					svc := NewSvc()
					start := time.Now()
					svc.now = func() time.Duration { return time.Since(start) }
					for _, tag := range []string{"a", "b"} {
						for _, n := range []string{tag, path.Join(prefix, tag), prefix + "/" + tag, prefix + tag, path.Clean("/" + prefix + "/" + tag)} {
							if n != "" && svc.S[n] == nil {
								svc.Put(n)
							}
						}
					}
					cfg := setec.StoreConfig{Client: svc, PollInterval: -1, AllowLookup: lookup, Logf: func(string, ...any) {}, Structs: []setec.Struct{{Value: &v, Prefix: prefix}}}
					if withCache {
						cfg.Cache = &HCache{}
					}
					ctx, cancel := context.WithTimeout(context.Background(), 30*time.Second)
					defer cancel()
					var st *setec.Store
					st, err = setec.NewStore(ctx, cfg)
					for _, r := range svc.Log {
						reqs = append(reqs, r.Name)
					}
					if st != nil {
						st.Close()
					}
				})
				sec.Evaluations++
				if prefix != path.Clean(prefix) && prefix != "" {
					sec.Nontrivial++
				}
				desc := fmt.Sprintf("prefix %q lookup=%v cache=%v", prefix, lookup, withCache)
				served := func(val, tag string) bool {
					return strings.HasSuffix(strings.TrimSuffix(val, "#v1"), tag) && strings.HasSuffix(val, "#v1")
				}
				switch {
				case err != nil:
					rep.Violate(sec.Name, "construct/prefix-spurious-failure: "+desc, fmt.Sprintf("%s: NewStore failed (%v) although the service answered every request (%v)", desc, err, reqs), map[string]any{"prefix": prefix})
				case !served(v.A, "a") || !served(string(v.B), "b"):
					rep.Violate(sec.Name, "construct/prefix-fields: "+desc, fmt.Sprintf("%s: fields A=%q B=%q are not values served for their names (requests %v)", desc, v.A, v.B, reqs), map[string]any{"prefix": prefix})
				}
			}
		}
	}
	sec.States, sec.Transitions = sec.Evaluations, sec.Evaluations
}

// expiries: with a cache that holds valid entries the configuration also runs with an expiry age set
// (the cache's last-access stamps are ancient: declared secrets must be taken from it all the same).
func expiries(cache string) []time.Duration {
	switch cache {
	case "partial", "complete", "stale":
		return []time.Duration{0, 100 * time.Second}
	}
	return []time.Duration{0}
}

// neverTicker is a caller-supplied poll ticker that never fires.
type neverTicker struct{}

func (neverTicker) Chan() <-chan time.Time { return nil }
func (neverTicker) Stop()                  {}
func (neverTicker) Done()                  {}
