// Harness for C05: secrets are confidential and tamper-evident at rest.
package c05

import (
	"bytes"
	"context"
	"encoding/base64"
	"encoding/hex"
	"encoding/json"
	"fmt"
	"github.com/aws/aws-sdk-go-v2/aws"
	"github.com/aws/aws-sdk-go-v2/credentials"
	"github.com/aws/aws-sdk-go-v2/service/s3"
	"github.com/tailscale/setec/server"
	"io"
	"net/http"
	"os"
	"path/filepath"
	"strings"
	"sync"
	"sync/atomic"
	"testing"
	"time"

	"github.com/tailscale/setec/audit"
	"github.com/tailscale/setec/client/setec"
	"github.com/tailscale/setec/db"
	"github.com/tailscale/setec/types/api"
	"github.com/tink-crypto/tink-go/v2/tink"

	"verif/fsx"
	"verif/hx"
	"verif/report"
	"verif/shim/vos"
)

// marker values: 24 bytes, fixed, high entropy, with bytes that need escaping in JSON.
var markerValues = []string{
	"\x9f\x1cQ7\"zK\x02<m\\Xw\n8e\xf3\x10Rj&vB\x7f",
	"Zq3+/kd9=Lw0PsT4yU7hNc2x",
	"\x00\x01\xfe\xffsecret-\"\\<>&\u2028-val",
}
var markerNames = []string{"mkname-Qx9Zp3LwT7", "prod/mk-5Jv8Rk2Hs", "mk.star*[x]$Gd4"}

// needles returns every trivially encoded form of m.
func needles(m string) map[string][]byte {
	out := map[string][]byte{"raw": []byte(m)}
	b := []byte(m)
	for a := 0; a < 3; a++ {
		part := b[(3-a)%3:]
		part = part[:len(part)-len(part)%3]
		out[fmt.Sprintf("base64-std/align%d", a)] = []byte(base64.StdEncoding.EncodeToString(part))
		out[fmt.Sprintf("base64-url/align%d", a)] = []byte(base64.URLEncoding.EncodeToString(part))
	}
	// the first eight bytes alone (a digest-looking field that carries a prefix of the value)
	if len(b) >= 8 {
		out["hex-of-first-8-bytes"] = []byte(hex.EncodeToString(b[:8]))
		out["base64-of-first-9-bytes"] = []byte(base64.StdEncoding.EncodeToString(b[:9]))
	}
	out["hex"] = []byte(hex.EncodeToString(b))
	out["HEX"] = []byte(strings.ToUpper(hex.EncodeToString(b)))
	js, _ := json.Marshal(m)
	out["json-escaped"] = js[1 : len(js)-1]
	var buf bytes.Buffer
	enc := json.NewEncoder(&buf)
	enc.SetEscapeHTML(false)
	enc.Encode(m)
	out["json-escaped-nohtml"] = bytes.TrimSpace(buf.Bytes())[1 : buf.Len()-2]
	return out
}

type scanner struct {
	valueNeedles map[string][]byte
	nameNeedles  map[string][]byte
}

func newScanner() *scanner {
	s := &scanner{valueNeedles: map[string][]byte{}, nameNeedles: map[string][]byte{}}
	for i, m := range markerValues {
		for k, n := range needles(m) {
			s.valueNeedles[fmt.Sprintf("value%d/%s", i, k)] = n
		}
	}
	for i, m := range markerNames {
		for k, n := range needles(m) {
			s.nameNeedles[fmt.Sprintf("name%d/%s", i, k)] = n
		}
	}
	return s
}

func (s *scanner) scan(data []byte, names bool) string {
	for k, n := range s.valueNeedles {
		if len(n) >= 8 && bytes.Contains(data, n) {
			return k
		}
	}
	if names {
		for k, n := range s.nameNeedles {
			if len(n) >= 8 && bytes.Contains(data, n) {
				return k
			}
		}
	}
	return ""
}

// countingAEAD wraps the KEK and counts its uses.
type countingAEAD struct {
	inner tink.AEAD
	n     atomic.Int64
}

func (c *countingAEAD) Encrypt(pt, ad []byte) ([]byte, error) {
	c.n.Add(1)
	return c.inner.Encrypt(pt, ad)
}
func (c *countingAEAD) Decrypt(ct, ad []byte) ([]byte, error) {
	c.n.Add(1)
	return c.inner.Decrypt(ct, ad)
}

type Op struct {
	Kind string
	Name int
	Val  int
	Ver  uint32
}

func apply(d *db.DB, o Op) error {
	su := hx.Super()
	n := markerNames[o.Name]
	switch o.Kind {
	case "put":
		_, err := d.Put(su, n, []byte(markerValues[o.Val]))
		return err
	case "activate":
		return d.Activate(su, n, api.SecretVersion(o.Ver))
	case "delver":
		return d.DeleteVersion(su, n, api.SecretVersion(o.Ver))
	case "delete":
		return d.Delete(su, n)
	case "get":
		_, err := d.Get(su, n)
		return err
	case "getver":
		_, err := d.GetVersion(su, n, api.SecretVersion(o.Ver))
		return err
	case "info":
		_, err := d.Info(su, n)
		return err
	case "list":
		_, err := d.List(su)
		return err
	}
	panic("bad op")
}

func alphabet() []Op {
	var out []Op
	for n := 0; n < 2; n++ {
		for v := 0; v < len(markerValues); v++ {
			out = append(out, Op{Kind: "put", Name: n, Val: v})
		}
		out = append(out, Op{Kind: "activate", Name: n, Ver: 2}, Op{Kind: "delver", Name: n, Ver: 1}, Op{Kind: "delete", Name: n},
			Op{Kind: "get", Name: n}, Op{Kind: "getver", Name: n, Ver: 2}, Op{Kind: "info", Name: n})
	}
	out = append(out, Op{Kind: "put", Name: 2, Val: 0}, Op{Kind: "list"})
	return out
}

// payloadHook scans every write payload and records create/chmod modes.
type payloadHook struct {
	dir   string
	sc    *scanner
	mu    sync.Mutex
	leaks []string
	modes []string
	n     int64
	files map[string]bool
}

func (h *payloadHook) Before(c *vos.Call) {
	if !strings.HasPrefix(c.Path, h.dir) {
		return
	}
	h.mu.Lock()
	defer h.mu.Unlock()
	base := filepath.Base(c.Path)
	if a := vos.Alias(base); a != base {
		base = a // a temporary made by CreateTemp: its pattern without the random digits
	} else if i := strings.Index(base, ".tmp"); i >= 0 {
		base = base[:i+4]
	}
	isDB := !strings.HasPrefix(base, "audit") // everything but the audit log (which names secrets by design) is the database or one of its temporaries
	switch c.Op {
	case "write", "writeat":
		h.n++
		h.files[base] = true
		if k := h.sc.scan(c.Data, isDB); k != "" {
			h.leaks = append(h.leaks, fmt.Sprintf("write to %s contains %s", base, k))
		}
	case "open", "createtemp":
		if c.Mutating && c.Flag&os.O_CREATE != 0 && c.Perm&0o077 != 0 {
			h.modes = append(h.modes, fmt.Sprintf("%s created with mode %o", base, c.Perm))
		}
	case "chmod":
		if c.Perm&0o077 != 0 {
			h.modes = append(h.modes, fmt.Sprintf("%s chmod to %o", base, c.Perm))
		}
	}
}
func (h *payloadHook) After(c *vos.Call, err error) {}

func TestCheck(t *testing.T) {
	env := report.FromEnv()
	rep := env.New("C05")
	defer rep.Guard(env)
	rep.Assumptions = []string{
		"confidentiality is decided as the statement words it: no occurrence of a marker value raw, base64 (std/url, any alignment), hex or JSON-escaped in any file the server writes; cryptographic strength is not a model-checking question",
		"wholesale replacement of the file by an earlier valid snapshot of the same database is excluded by the property",
		"the client FileCache holds values by design; only its permissions are checked",
	}
	base := hx.Scratch("c05-")
	defer os.RemoveAll(base)
	sc := newScanner()
	depth := 3
	if env.Thorough() {
		depth = 5
	}
	// (a)+(c): all histories up to depth over the marker alphabet
	sec := rep.Add(&report.Section{Name: fmt.Sprintf("at-rest-scan-all-histories-depth%d", depth), Engine: "seqx", Exhaustive: true, Extra: map[string]int64{},
		Rule: "every operation history over marker names/values up to the depth, on a database with a real audit log file; every payload passed to a file write, every create/chmod mode, and every file in the state directory after every operation are scanned for the markers in raw/base64/hex/JSON-escaped form; the KEK wrapper counts key uses after open; non-trivial = histories whose final database holds at least one marker value"})
	alpha := alphabet()
	var hist []Op
	kekInner := hx.NewKEK()
	var rec func(d int)
	dir := filepath.Join(base, "state")
	var nhist, nontriv, scans, kekOps int64
	viol := func(kind, msg string) {
		var hs []string
		for _, o := range hist {
			hs = append(hs, fmt.Sprintf("%s(n%d,v%d,%d)", o.Kind, o.Name, o.Val, o.Ver))
		}
		rep.Violate(sec.Name, sec.Name+"/"+kind, fmt.Sprintf("history %v: %s", hs, msg), map[string]any{"history": hist})
	}
	runHist := func() {
		os.RemoveAll(dir)
		os.MkdirAll(dir, 0o700)
		ph := &payloadHook{dir: dir, sc: sc, files: map[string]bool{}}
		vos.SetHook(ph)
		defer vos.SetHook(nil)
		kek := &countingAEAD{inner: kekInner}
		aw, err := audit.NewFile(filepath.Join(dir, "audit.log"))
		if err != nil {
			t.Fatal(err)
		}
		defer aw.Close()
		d, err := db.Open(filepath.Join(dir, "db"), kek, aw)
		if err != nil {
			t.Fatal(err)
		}
		afterOpen := kek.n.Load()
		holds := false
		for _, o := range hist {
			apply(d, o)
			// scan everything in the directory
			ents, _ := os.ReadDir(dir)
			for _, e := range ents {
				data, _ := os.ReadFile(filepath.Join(dir, e.Name()))
				scans++
				if k := sc.scan(data, !strings.HasPrefix(e.Name(), "audit")); k != "" {
					viol("leak-in-file:"+e.Name(), fmt.Sprintf("file %s contains %s", e.Name(), k))
				}
				fi, _ := e.Info()
				if fi != nil && fi.Mode().Perm()&0o077 != 0 {
					viol("file-mode:"+e.Name(), fmt.Sprintf("file %s has mode %o", e.Name(), fi.Mode().Perm()))
				}
			}
		}
		m, _ := d.VerifDump()
		for _, s := range m {
			if len(s.Versions) > 0 {
				holds = true
			}
		}
		if holds {
			nontriv++
		}
		if n := kek.n.Load(); n != afterOpen {
			viol("kek-used-after-open", fmt.Sprintf("key-encryption key used %d times after the database was opened", n-afterOpen))
		}
		kekOps += afterOpen
		for _, l := range ph.leaks {
			viol("leak-in-write", l)
		}
		for _, l := range ph.modes {
			viol("mode", l)
		}
		scans += ph.n
		nhist++
		if len(sec.Samples) < 2 && len(hist) == depth && holds {
			var files []string
			for f := range ph.files {
				files = append(files, f)
			}
			sec.Samples = append(sec.Samples, map[string]any{"history": fmt.Sprint(hist), "files_written": files, "write_payloads_scanned": ph.n})
		}
	}
	rec = func(dp int) {
		if env.Expired() {
			sec.Exhaustive = false
			return
		}
		runHist()
		if dp == depth {
			return
		}
		for _, o := range alpha {
			// prune: reads never change what is on disk beyond the audit line; allow them only as the last step
			hist = append(hist, o)
			if o.Kind == "put" || o.Kind == "activate" || o.Kind == "delver" || o.Kind == "delete" || dp == depth-1 {
				rec(dp + 1)
			}
			hist = hist[:len(hist)-1]
		}
	}
	rec(0)
	sec.Evaluations, sec.Nontrivial, sec.States, sec.Transitions = nhist, nontriv, nhist, scans
	sec.Extra["payloads_and_files_scanned"] = scans
	sec.Extra["kek_uses_during_open_total"] = kekOps

	// client file cache: modes only
	fcSec := rep.Add(&report.Section{Name: "file-cache-modes", Engine: "enum", Exhaustive: true, Extra: map[string]int64{}, Rule: "FileCache.Write of several documents: create/chmod modes in the call log and the resulting mode bits"})
	cdir := filepath.Join(base, "cache")
	os.MkdirAll(cdir, 0o700)
	for i, doc := range []string{`{}`, `{"a":{"secret":{"Value":"eA==","Version":1},"lastAccess":"0"}}`, strings.Repeat("x", 70000)} {
		ph := &payloadHook{dir: cdir, sc: sc, files: map[string]bool{}}
		vos.SetHook(ph)
		fc, err := setec.NewFileCache(filepath.Join(cdir, "sub", "cache.json"))
		if err == nil {
			err = fc.Write([]byte(doc))
		}
		vos.SetHook(nil)
		fcSec.Evaluations++
		fcSec.Nontrivial++
		if err != nil {
			rep.Violate(fcSec.Name, "file-cache-write-failed", err.Error(), nil)
		}
		for _, l := range ph.modes {
			rep.Violate(fcSec.Name, "file-cache-mode/"+l, fmt.Sprintf("document %d: %s", i, l), nil)
		}
		fi, err := os.Stat(filepath.Join(cdir, "sub", "cache.json"))
		if err != nil || fi.Mode().Perm()&0o077 != 0 {
			rep.Violate(fcSec.Name, "file-cache-mode/final", fmt.Sprintf("document %d: mode %v err %v", i, fi.Mode(), err), nil)
		}
		fcSec.Samples = append(fcSec.Samples, fmt.Sprintf("doc %d (%d bytes): mode %o", i, len(doc), fi.Mode().Perm()))
	}

	restored(t, rep, base, sc)
	reopened(t, rep, base)
	kekDown(t, rep, base)
	backupWithoutKey(t, rep, base)
	tamper(t, env, rep, base)
	if err := rep.Write(env); err != nil {
		t.Fatal(err)
	}
	_ = fsx.ErrInjected
}

type wrapped struct {
	Version uint32
	DEK     []byte
	DB      []byte
}

// tamper: bit flips, truncations, field swaps, foreign keys.
func tamper(t *testing.T, env *report.Env, rep *report.Report, base string) {
	sec := rep.Add(&report.Section{Name: "tamper-evidence", Engine: "fsx", Exhaustive: true, Extra: map[string]int64{},
		Rule: "for saved database files of several shapes: every single-bit flip, every truncation length, every swap of the Version/DEK/DB fields with a second valid database (same and different key), members named like parts of the decrypted contents added to the outer document, and opening with a foreign key; each altered file is opened alone in a fresh directory and again in place in the directory where the code built the database (next to whatever else the code left there); db.Open must fail or yield exactly the original contents; non-trivial = altered files that still parse as JSON (so the decision is made by the cryptographic layer)"})
	kekA, kekB := hx.NewKEK(), hx.NewKEK()
	mk := func(dir string, kek tink.AEAD, hist []Op) (string, string) {
		os.MkdirAll(dir, 0o700)
		p := filepath.Join(dir, "db")
		os.Remove(p)
		d, err := db.Open(p, kek, hx.Discard())
		if err != nil {
			t.Fatal(err)
		}
		for _, o := range hist {
			apply(d, o)
		}
		return p, hx.DumpKey(d)
	}
	hists := [][]Op{
		nil,
		{{Kind: "put", Name: 0, Val: 0}},
		{{Kind: "put", Name: 0, Val: 0}, {Kind: "put", Name: 0, Val: 1}, {Kind: "activate", Name: 0, Ver: 2}, {Kind: "put", Name: 1, Val: 2}},
	}
	if env.Thorough() {
		hists = append(hists, []Op{{Kind: "put", Name: 1, Val: 1}, {Kind: "put", Name: 1, Val: 2}, {Kind: "delver", Name: 1, Ver: 2}, {Kind: "put", Name: 2, Val: 0}},
			[]Op{{Kind: "put", Name: 0, Val: 2}, {Kind: "delete", Name: 0}, {Kind: "put", Name: 0, Val: 1}})
	}
	tdir := filepath.Join(base, "tamper")
	os.MkdirAll(tdir, 0o700)
	tp := filepath.Join(tdir, "db")
	// Every altered file is opened twice: as the only file of a fresh directory, and in place, in the
	// directory where the code built the database (so whatever else the code keeps next to the database
	// is still there when the damaged file is opened).
	var tryAt func(where, kind string, fileIdx int, detail string, data []byte, kek tink.AEAD, orig string)
	try := func(kind string, fileIdx int, detail string, data []byte, kek tink.AEAD, orig string) {
		tryAt("", kind, fileIdx, detail, data, kek, orig)
		tryAt(" (damaged in place)", kind, fileIdx, detail, data, kek, orig)
	}
	tryAt = func(where, kind string, fileIdx int, detail string, data []byte, kek tink.AEAD, orig string) {
		sec.Evaluations++
		tp := tp
		if where != "" {
			tp = filepath.Join(base, fmt.Sprintf("A%d", fileIdx), "db")
			sec.Extra["opened_in_place"]++
			detail += where
		}
		os.WriteFile(tp, data, 0o600)
		d, err := db.Open(tp, kek, hx.Discard())
		var w wrapped
		if json.Unmarshal(data, &w) == nil {
			sec.Nontrivial++
		}
		if err != nil {
			return
		}
		if kind == "foreign-key" {
			// "the database opens only with the key-encryption key it was created with"
			rep.Violate(sec.Name, fmt.Sprintf("tamper/foreign-key-opens: file %d", fileIdx), fmt.Sprintf("file %d opened without error with a key-encryption key it was not created with (contents as original: %v)", fileIdx, hx.DumpKey(d) == orig), map[string]any{"kind": kind, "file": fileIdx})
			return
		}
		if got := hx.DumpKey(d); got != orig {
			rep.Violate(sec.Name, fmt.Sprintf("tamper/%s: file %d %s", kind, fileIdx, detail), fmt.Sprintf("%s of file %d (%s): opens without error as %s, original contents %s", kind, fileIdx, detail, got, orig), map[string]any{"kind": kind, "file": fileIdx, "detail": detail})
		}
	}
	for i, h := range hists {
		p, orig := mk(filepath.Join(base, fmt.Sprintf("A%d", i)), kekA, h)
		data, _ := os.ReadFile(p)
		// a second valid database, same key and different key, different contents
		p2, _ := mk(filepath.Join(base, fmt.Sprintf("B%d", i)), kekA, append(append([]Op{}, h...), Op{Kind: "put", Name: 2, Val: 1}))
		data2, _ := os.ReadFile(p2)
		p3, _ := mk(filepath.Join(base, fmt.Sprintf("C%d", i)), kekB, append(append([]Op{}, h...), Op{Kind: "put", Name: 2, Val: 2}))
		data3, _ := os.ReadFile(p3)
		step := 1
		if !env.Thorough() && len(data) > 700 {
			step = 1 // still every bit; files are small
		}
		for bit := 0; bit < len(data)*8; bit += step {
			mut := append([]byte(nil), data...)
			mut[bit/8] ^= 1 << (bit % 8)
			try("bit-flip", i, fmt.Sprintf("bit %d", bit), mut, kekA, orig)
			sec.Extra["bit_flips"]++
		}
		for n := 0; n < len(data); n++ {
			try("truncation", i, fmt.Sprintf("to %d bytes", n), data[:n], kekA, orig)
			sec.Extra["truncations"]++
		}
		try("foreign-key", i, "opened with another key", data, kekB, orig)
		refusing := &downAEAD{inner: kekA}
		refusing.down.Store(true)
		try("foreign-key", i, "opened with a key service that refuses every request", data, refusing, orig)
		sec.Extra["foreign_key_opens"] += 2
		var wa wrapped
		json.Unmarshal(data, &wa)
		for j, other := range [][]byte{data2, data3} {
			var wo wrapped
			json.Unmarshal(other, &wo)
			for mask := 1; mask < 7; mask++ {
				w := wa
				var parts []string
				if mask&1 != 0 {
					w.DEK = wo.DEK
					parts = append(parts, "DEK")
				}
				if mask&2 != 0 {
					w.DB = wo.DB
					parts = append(parts, "DB")
				}
				if mask&4 != 0 {
					w.Version = wo.Version + uint32(j)
					parts = append(parts, "Version")
				}
				// mask 3 with the same key is a wholesale replacement by another valid database: excluded by the property
				if mask&3 == 3 {
					continue
				}
				mut, _ := json.Marshal(w)
				try("field-swap", i, fmt.Sprintf("%s from database %d", strings.Join(parts, "+"), j), mut, kekA, orig)
				sec.Extra["field_swaps"]++
			}
		}
		// members added to the (unauthenticated) outer document, named like parts of the decrypted contents
		for _, extra := range []string{`"Secrets":{"planted":{"Versions":{"1":"eA=="},"ActiveVersion":1,"LatestVersion":1}}`, `"secrets":{"planted":{"Versions":{"1":"eA=="},"ActiveVersion":1,"LatestVersion":1}}`, `"Secrets":null`, `"persist":{"Secrets":{"planted":{"Versions":{"1":"eA=="},"ActiveVersion":1,"LatestVersion":1}}}`} {
			if j := bytes.LastIndexByte(data, '}'); j > 0 {
				mut := append(append(append([]byte{}, data[:j]...), []byte(","+extra)...), data[j:]...)
				try("added-member", i, extra[:12], mut, kekA, orig)
				sec.Extra["added_members"]++
			}
		}
		if i == len(hists)-1 {
			sec.Samples = append(sec.Samples, map[string]any{"file_bytes": len(data), "original": report.Clip(orig, 200)})
		}
	}
}

// restored: a database file put in place from outside with a wider mode (for
// example restored from a backup with cp) and then opened and changed: every
// file the server creates from then on must still be owner-only.
func restored(t *testing.T, rep *report.Report, base string, sc *scanner) {
	sec := rep.Add(&report.Section{Name: "restored-file-with-wider-mode", Engine: "enum", Exhaustive: true, Extra: map[string]int64{},
		Rule: "a valid database file (and audit log) placed with modes 0644 / 0664 / 0640 / 0666 before the server opens it, then every kind of mutating operation: create/chmod modes in the call log and the mode bits of the database file after each operation; non-trivial = operations that rewrite the file"})
	kek := hx.NewKEK()
	for _, mode := range []os.FileMode{0o644, 0o664, 0o640, 0o666} {
		dir := filepath.Join(base, fmt.Sprintf("restored-%o", mode))
		os.MkdirAll(dir, 0o700)
		p := filepath.Join(dir, "db")
		d0, err := db.Open(p, kek, hx.Discard())
		if err != nil {
			t.Fatal(err)
		}
		apply(d0, Op{Kind: "put", Name: 0, Val: 0})
		apply(d0, Op{Kind: "put", Name: 0, Val: 1})
		os.Chmod(p, mode)
		ph := &payloadHook{dir: dir, sc: sc, files: map[string]bool{}}
		vos.SetHook(ph)
		d, err := db.Open(p, kek, hx.Discard())
		if err != nil {
			vos.SetHook(nil)
			t.Fatal(err)
		}
		for _, o := range []Op{{Kind: "put", Name: 1, Val: 2}, {Kind: "activate", Name: 0, Ver: 2}, {Kind: "delver", Name: 0, Ver: 1}, {Kind: "delete", Name: 1}} {
			if err := apply(d, o); err != nil {
				continue
			}
			sec.Evaluations++
			sec.Nontrivial++
			fi, err := os.Stat(p)
			if err != nil || fi.Mode().Perm()&0o077 != 0 {
				rep.Violate(sec.Name, fmt.Sprintf("restored/file-mode: placed %o op %s", mode, o.Kind), fmt.Sprintf("database file placed with mode %o; after %s the file the server wrote has mode %v", mode, o.Kind, fi.Mode().Perm()), nil)
			}
		}
		vos.SetHook(nil)
		for _, l := range ph.modes {
			rep.Violate(sec.Name, fmt.Sprintf("restored/create-mode: placed %o: %s", mode, l), fmt.Sprintf("database file placed with mode %o: %s", mode, l), nil)
		}
		sec.Samples = append(sec.Samples, fmt.Sprintf("placed with %o -> rewritten files owner-only", mode))
	}
	sec.States, sec.Transitions = sec.Evaluations, sec.Evaluations
}

// reopened: the key-encryption key is consulted while an existing database is opened and never afterwards.
func reopened(t *testing.T, rep *report.Report, base string) {
	sec := rep.Add(&report.Section{Name: "kek-use-after-reopen", Engine: "enum", Exhaustive: true, Extra: map[string]int64{},
		Rule: "databases of three shapes are closed and reopened with a counting key-encryption key; then every kind of operation (reads and each mutating operation, several in a row): the key must not be used after Open returned, and after each operation every file in the state directory is scanned for the marker names and values in all trivial encodings; non-trivial = mutating operations"})
	inner := hx.NewKEK()
	sc := newScanner()
	hists := [][]Op{nil, {{Kind: "put", Name: 0, Val: 0}}, {{Kind: "put", Name: 0, Val: 0}, {Kind: "put", Name: 0, Val: 1}, {Kind: "put", Name: 1, Val: 2}}}
	ops := []Op{{Kind: "get", Name: 0}, {Kind: "list"}, {Kind: "put", Name: 0, Val: 2}, {Kind: "put", Name: 2, Val: 1}, {Kind: "activate", Name: 0, Ver: 2}, {Kind: "delver", Name: 0, Ver: 1}, {Kind: "delete", Name: 1}, {Kind: "put", Name: 1, Val: 0}}
	for hi, h := range hists {
		dir := filepath.Join(base, fmt.Sprintf("reopen%d", hi))
		os.MkdirAll(dir, 0o700)
		p := filepath.Join(dir, "db")
		d0, err := db.Open(p, inner, hx.Discard())
		if err != nil {
			t.Fatal(err)
		}
		for _, o := range h {
			apply(d0, o)
		}
		kek := &countingAEAD{inner: inner}
		d, err := db.Open(p, kek, hx.Discard())
		if err != nil {
			t.Fatal(err)
		}
		after := kek.n.Load()
		for _, o := range ops {
			apply(d, o)
			sec.Evaluations++
			if o.Kind == "put" || o.Kind == "activate" || o.Kind == "delver" || o.Kind == "delete" {
				sec.Nontrivial++
			}
			// what a reopened database writes is scanned like what a fresh one writes
			if ents, err := os.ReadDir(dir); err == nil {
				for _, e := range ents {
					data, _ := os.ReadFile(filepath.Join(dir, e.Name()))
					if hit := sc.scan(data, true); hit != "" {
						rep.Violate(sec.Name, fmt.Sprintf("at-rest-after-reopen: database %d op %s", hi, o.Kind), fmt.Sprintf("database %d reopened from its file, after %s: file %s contains %s in the clear", hi, o.Kind, e.Name(), hit), nil)
					}
					sec.Extra["files_scanned"]++
				}
			}
			if n := kek.n.Load(); n != after {
				rep.Violate(sec.Name, fmt.Sprintf("kek-after-reopen: database %d op %s", hi, o.Kind), fmt.Sprintf("database %d reopened from its file: %s used the key-encryption key %d time(s) after Open had returned", hi, o.Kind, n-after), nil)
				after = n
			}
		}
		sec.Samples = append(sec.Samples, fmt.Sprintf("database %d: %d KEK uses during Open, 0 afterwards", hi, after))
	}
	sec.States, sec.Transitions = sec.Evaluations, sec.Evaluations
}

// downAEAD is a key-encryption key whose service becomes unreachable: once down, every use fails
// (and is counted).
type downAEAD struct {
	inner tink.AEAD
	down  atomic.Bool
	n     atomic.Int64
}

func (c *downAEAD) Encrypt(pt, ad []byte) ([]byte, error) {
	if c.down.Load() {
		c.n.Add(1)
		return nil, fmt.Errorf("key service unreachable")
	}
	return c.inner.Encrypt(pt, ad)
}
func (c *downAEAD) Decrypt(ct, ad []byte) ([]byte, error) {
	if c.down.Load() {
		c.n.Add(1)
		return nil, fmt.Errorf("key service unreachable")
	}
	return c.inner.Decrypt(ct, ad)
}

// kekDown: "a running server does not depend on the key service". The same operation sequence, with a
// save that fails at a chosen operation and file-system call, runs once with the key service up and
// once with the key service unreachable from the moment Open returned; every answer and every
// served state must be identical, and the unreachable key must never have been asked.
func kekDown(t *testing.T, rep *report.Report, base string) {
	sec := rep.Add(&report.Section{Name: "key-service-down-after-open-with-failing-saves", Engine: "fsx", Exhaustive: true, Extra: map[string]int64{},
		Rule: "an 8-operation sequence on two pre-states × {no fault, an injected error at file-system call 0..5 of the save of each mutating operation}: run with the key-encryption key available and again with it failing from the moment Open returned; results, served state after every operation and the reopened file must agree, and the key must not be used after Open; non-trivial = runs with an injected fault"})
	inner := hx.NewKEK()
	hists := [][]Op{{{Kind: "put", Name: 0, Val: 0}}, {{Kind: "put", Name: 0, Val: 0}, {Kind: "put", Name: 0, Val: 1}, {Kind: "put", Name: 1, Val: 2}}}
	ops := []Op{{Kind: "get", Name: 0}, {Kind: "put", Name: 0, Val: 2}, {Kind: "put", Name: 2, Val: 1}, {Kind: "activate", Name: 0, Ver: 2}, {Kind: "delver", Name: 0, Ver: 1}, {Kind: "delete", Name: 1}, {Kind: "put", Name: 1, Val: 0}, {Kind: "list"}}
	run := func(hi int, faultOp, faultCall int, down bool) (trace []string, uses int64) {
		dir := filepath.Join(base, fmt.Sprintf("kekdown%d", hi))
		os.RemoveAll(dir)
		os.MkdirAll(dir, 0o700)
		p := filepath.Join(dir, "db")
		d0, err := db.Open(p, inner, hx.Discard())
		if err != nil {
			t.Fatal(err)
		}
		for _, o := range hists[hi] {
			apply(d0, o)
		}
		kek := &downAEAD{inner: inner}
		d, err := db.Open(p, kek, hx.Discard())
		if err != nil {
			t.Fatal(err)
		}
		kek.down.Store(down)
		for i, o := range ops {
			var rec *fsx.Recorder
			if i == faultOp {
				rec = fsx.NewRecorder(dir)
				rec.Baseline()
				rec.FaultAt = faultCall
				vos.SetHook(rec)
			}
			err := apply(d, o)
			if rec != nil {
				vos.SetHook(nil)
			}
			trace = append(trace, fmt.Sprintf("%s(%d) -> %s ; state %s", o.Kind, o.Name, hx.Classify(err), hx.DumpKey(d)))
		}
		if d2, err := db.Open(p, inner, hx.Discard()); err != nil {
			trace = append(trace, "reopen: "+err.Error())
		} else {
			trace = append(trace, "reopen: "+hx.DumpKey(d2))
		}
		return trace, kek.n.Load()
	}
	for hi := range hists {
		type fp struct{ op, call int }
		points := []fp{{-1, -1}}
		for i, o := range ops {
			if o.Kind == "put" || o.Kind == "activate" || o.Kind == "delver" || o.Kind == "delete" {
				for c := 0; c < 6; c++ {
					points = append(points, fp{i, c})
				}
			}
		}
		for _, pt := range points {
			up, _ := run(hi, pt.op, pt.call, false)
			dn, uses := run(hi, pt.op, pt.call, true)
			sec.Evaluations++
			if pt.op >= 0 {
				sec.Nontrivial++
			}
			desc := "no fault"
			if pt.op >= 0 {
				desc = fmt.Sprintf("save of operation %d (%s) fails at its file-system call %d", pt.op, ops[pt.op].Kind, pt.call)
			}
			if uses != 0 {
				rep.Violate(sec.Name, fmt.Sprintf("kek-used-while-down: database %d fault %v", hi, pt), fmt.Sprintf("database %d, %s: the key-encryption key was asked %d time(s) after Open had returned", hi, desc, uses), map[string]any{"db": hi, "fault_op": pt.op, "fault_call": pt.call})
			}
			for i := range up {
				if i < len(dn) && up[i] != dn[i] {
					rep.Violate(sec.Name, fmt.Sprintf("depends-on-key-service: database %d fault %v", hi, pt), fmt.Sprintf("database %d, %s: with the key service unreachable after Open step %d reads %q, with it reachable %q", hi, desc, i, dn[i], up[i]), map[string]any{"db": hi, "fault_op": pt.op, "fault_call": pt.call})
					break
				}
			}
		}
	}
	sec.States, sec.Transitions = sec.Evaluations, sec.Evaluations*int64(len(ops))
	sec.Samples = append(sec.Samples, fmt.Sprintf("%d runs of %d operations, each with the key service up and down", sec.Evaluations, len(ops)))
}

// memS3 is an in-memory S3 endpoint behind a genuine *s3.Client.
type memS3 struct {
	mu     sync.Mutex
	bodies [][]byte
	got    chan struct{}
}

func (m *memS3) RoundTrip(req *http.Request) (*http.Response, error) {
	var body []byte
	if req.Body != nil {
		body, _ = io.ReadAll(req.Body)
		req.Body.Close()
	}
	m.mu.Lock()
	m.bodies = append(m.bodies, body)
	m.mu.Unlock()
	select {
	case m.got <- struct{}{}:
	default:
	}
	return &http.Response{StatusCode: 200, Status: "200 OK", Header: http.Header{"Etag": {`"abc"`}}, Body: io.NopCloser(strings.NewReader("")), Request: req}, nil
}

// backupWithoutKey: "a running server does not depend on the key service" includes its background
// backup task: with the key service unreachable from the moment Open returned, the task (run through
// the verif hook, free-running) must still upload the database file, and the key is never asked.
func backupWithoutKey(t *testing.T, rep *report.Report, base string) {
	sec := rep.Add(&report.Section{Name: "backup-task-with-the-key-service-down", Engine: "enum", Exhaustive: true, Extra: map[string]int64{},
		Rule: "databases {empty, two secrets}: opened with a key service that becomes unreachable when Open returns; the periodic backup task (verif hook, in-memory S3, real time) must deliver its start-up upload, byte-identical to the file, and the key must never be asked; the only time bound (90 s for a step of milliseconds) is reached only if no upload comes; non-trivial = all"})
	for _, withSecrets := range []bool{false, true} {
		sec.Evaluations++
		sec.Nontrivial++
		desc := fmt.Sprintf("database with secrets=%v", withSecrets)
		dir := filepath.Join(base, fmt.Sprintf("backup%v", withSecrets))
		os.MkdirAll(dir, 0o700)
		p := filepath.Join(dir, "db")
		kek := &downAEAD{inner: hx.NewKEK()}
		d, err := db.Open(p, kek, hx.Discard())
		if err != nil {
			t.Fatal(err)
		}
		if withSecrets {
			apply(d, Op{Kind: "put", Name: 0, Val: 0})
			apply(d, Op{Kind: "put", Name: 1, Val: 1})
		}
		kek.down.Store(true)
		want, _ := os.ReadFile(p)
		m := &memS3{got: make(chan struct{}, 4)}
		client := s3.New(s3.Options{Region: "us-east-1", Credentials: credentials.NewStaticCredentialsProvider("AKIDEXAMPLE", "secret", ""), HTTPClient: &http.Client{Transport: m}, Retryer: aws.NopRetryer{}, UsePathStyle: true, BaseEndpoint: aws.String("http://s3.test")})
		ctx, cancel := context.WithCancel(context.Background())
		done := make(chan struct{})
		go func() {
			defer close(done)
			server.VerifPeriodicBackup(ctx, d, client, "bucket")
		}()
		select {
		case <-m.got:
			m.mu.Lock()
			b := m.bodies[0]
			m.mu.Unlock()
			if !bytes.Equal(b, want) {
				rep.Violate(sec.Name, "backup-without-key/upload-differs: "+desc, desc+": the upload is not the database file", nil)
			}
		case <-time.After(90 * time.Second):
			rep.Violate(sec.Name, "backup-without-key/no-upload: "+desc, fmt.Sprintf("%s: with the key service unreachable since Open returned, no backup reached the bucket within 90 s (the key was asked %d times)", desc, kek.n.Load()), nil)
			cancel()
			sec.Exhaustive = false
			sec.States, sec.Transitions = sec.Evaluations, sec.Evaluations
			return
		}
		cancel()
		select {
		case <-done:
		case <-time.After(30 * time.Second):
		}
		if n := kek.n.Load(); n != 0 {
			rep.Violate(sec.Name, "backup-without-key/key-asked: "+desc, fmt.Sprintf("%s: the backup task asked the key-encryption key %d time(s) after Open had returned", desc, n), nil)
		}
	}
	sec.States, sec.Transitions = sec.Evaluations, sec.Evaluations
}
