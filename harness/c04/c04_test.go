// Harness for C04: the database file update is all-or-nothing under crashes
// and I/O failures.  Every file-system call of every kind of mutating
// operation is a crash point (kill before/after, torn write, power loss) and a
// fault point (injected error, also in pairs across consecutive operations).
package c04

import (
	"bufio"
	"encoding/json"
	"fmt"
	"os"
	"os/exec"
	"path/filepath"
	"regexp"
	"strings"
	"testing"

	"github.com/tailscale/setec/db"
	"github.com/tailscale/setec/types/api"

	"verif/fsx"
	"verif/hx"
	"verif/model"
	"verif/report"
	"verif/shim/vos"
)

type Op struct {
	Kind  string `json:"k"` // create put activate delver delete
	Name  string `json:"n,omitempty"`
	Value string `json:"v,omitempty"`
	Ver   uint32 `json:"ver,omitempty"`
}

func (o Op) String() string {
	switch o.Kind {
	case "create":
		return "create-database"
	case "put":
		return fmt.Sprintf("put(%s,%q)", o.Name, o.Value)
	case "delete":
		return fmt.Sprintf("delete(%s)", o.Name)
	}
	return fmt.Sprintf("%s(%s,%d)", o.Kind, o.Name, o.Ver)
}

var kek = hx.NewKEK()

func apply(d *db.DB, o Op) (uint32, error) {
	su := hx.Super()
	switch o.Kind {
	case "put":
		v, err := d.Put(su, o.Name, []byte(o.Value))
		return uint32(v), err
	case "activate":
		return 0, d.Activate(su, o.Name, api.SecretVersion(o.Ver))
	case "delver":
		return 0, d.DeleteVersion(su, o.Name, api.SecretVersion(o.Ver))
	case "delete":
		return 0, d.Delete(su, o.Name)
	}
	panic("bad op " + o.Kind)
}

func applyModel(k *model.KV, o Op) {
	switch o.Kind {
	case "put":
		k.Put(o.Name, o.Value)
	case "activate":
		k.Activate(o.Name, o.Ver)
	case "delver":
		k.DeleteVersion(o.Name, o.Ver)
	case "delete":
		k.Delete(o.Name)
	}
}

type pre struct {
	name string
	ops  []Op
}

var pres = []pre{
	{"empty", nil},
	{"a1", []Op{{Kind: "put", Name: "a", Value: "one"}}},
	{"a12", []Op{{Kind: "put", Name: "a", Value: "one"}, {Kind: "put", Name: "a", Value: "two"}}},
	{"a1b1", []Op{{Kind: "put", Name: "a", Value: "one"}, {Kind: "put", Name: "b", Value: "bee"}}},
}

// mutating operations that succeed from the given pre-state
func opsFor(p pre) []Op {
	switch p.name {
	case "empty":
		return []Op{{Kind: "put", Name: "a", Value: "new"}}
	case "a1":
		return []Op{{Kind: "put", Name: "a", Value: "new"}, {Kind: "put", Name: "b", Value: "new"}, {Kind: "delete", Name: "a"}}
	case "a12":
		return []Op{{Kind: "put", Name: "a", Value: "new"}, {Kind: "activate", Name: "a", Ver: 2}, {Kind: "delver", Name: "a", Ver: 2}, {Kind: "delete", Name: "a"}}
	}
	return []Op{{Kind: "put", Name: "a", Value: "new"}, {Kind: "delete", Name: "b"}, {Kind: "put", Name: "c", Value: "sea"}}
}

// build creates dir/db holding the pre-state and returns its model.
func build(dir string, p pre) *model.KV {
	os.RemoveAll(dir)
	os.MkdirAll(dir, 0o700)
	d, err := db.Open(filepath.Join(dir, "db"), kek, hx.Discard())
	if err != nil {
		panic(err)
	}
	m := model.NewKV()
	for _, o := range p.ops {
		if _, err := apply(d, o); err != nil {
			panic(err)
		}
		applyModel(m, o)
	}
	if hx.DumpKey(d) != m.Key() {
		panic("pre-state mismatch")
	}
	return m
}

func recoverDump(dir string) (string, error) {
	d, err := db.Open(filepath.Join(dir, "db"), kek, hx.Discard())
	if err != nil {
		return "", err
	}
	return hx.DumpKey(d), nil
}

func copyDir(src, dst string) {
	os.RemoveAll(dst)
	os.MkdirAll(dst, 0o700)
	ents, _ := os.ReadDir(src)
	for _, e := range ents {
		b, _ := os.ReadFile(filepath.Join(src, e.Name()))
		os.WriteFile(filepath.Join(dst, e.Name()), b, 0o600)
	}
}

type ctx struct {
	rep  *report.Report
	sec  *report.Section
	base string
}

func (c *ctx) fail(kind string, p pre, ops []Op, detail string, replay any) {
	var s []string
	for _, o := range ops {
		s = append(s, o.String())
	}
	key := fmt.Sprintf("%s/%s: pre=%s ops=%s", c.sec.Name, kind, p.name, strings.Join(s, ","))
	c.rep.Violate(c.sec.Name, key, fmt.Sprintf("pre-state %s, %s: %s", p.name, strings.Join(s, " then "), detail), replay)
}

// crashes runs op cleanly under the recorder and checks every crash variant.
func (c *ctx) crashes(p pre, o Op) {
	dir := filepath.Join(c.base, "live")
	rdir := filepath.Join(c.base, "recover")
	var m *model.KV
	var d *db.DB
	var preKey string
	if o.Kind == "create" {
		os.RemoveAll(dir)
		os.MkdirAll(dir, 0o700)
		m = model.NewKV()
		preKey = m.Key()
	} else {
		m = build(dir, p)
		preKey = m.Key()
		var err error
		d, err = db.Open(filepath.Join(dir, "db"), kek, hx.Discard())
		if err != nil {
			panic(err)
		}
	}
	rec := fsx.NewRecorder(dir)
	rec.Baseline()
	vos.SetHook(rec)
	var err error
	if o.Kind == "create" {
		d, err = db.Open(filepath.Join(dir, "db"), kek, hx.Discard())
	} else {
		_, err = apply(d, o)
	}
	vos.SetHook(nil)
	if err != nil {
		c.fail("clean-run-failed", p, []Op{o}, err.Error(), nil)
		return
	}
	applyModel(m, o)
	postKey := m.Key()
	if k := hx.DumpKey(d); k != postKey {
		c.fail("clean-run-state", p, []Op{o}, "state "+k+" want "+postKey, nil)
		return
	}
	final := rec.Snap()
	c.sec.Extra["fs_calls_logged"] += int64(len(rec.Log()))
	if len(c.sec.Samples) < 2 {
		c.sec.Samples = append(c.sec.Samples, map[string]any{"pre": p.name, "op": o.String(), "fs_call_log": rec.Log()})
	}
	if err := rec.CheckAtomicProtocol("db"); err != nil {
		c.fail("write-protocol", p, []Op{o}, err.Error(), map[string]any{"log": rec.Log()})
	}
	c.sec.Extra["protocol_traces_checked"]++
	vars := rec.CrashVariants(final, true)
	os.MkdirAll(rdir, 0o700)
	for _, v := range vars {
		c.sec.Evaluations++
		if err := fsx.Materialize(rdir, v); err != nil {
			panic(err)
		}
		got, err := recoverDump(rdir)
		switch {
		case strings.Contains(v.Desc, "powerloss"):
			c.sec.Extra["powerloss_variants"]++
		case strings.Contains(v.Desc, "during"):
			c.sec.Extra["torn_write_variants"]++
		default:
			c.sec.Extra["kill_points"]++
		}
		if err != nil {
			c.fail("unreadable-after-crash", p, []Op{o}, fmt.Sprintf("%s: database does not open: %v", v.Desc, err), map[string]any{"pre": p.name, "op": o, "crash": v.Desc})
			continue
		}
		if got != preKey && got != postKey {
			c.fail("mixed-state-after-crash", p, []Op{o}, fmt.Sprintf("%s: recovered %s, neither pre %s nor post %s", v.Desc, got, preKey, postKey), map[string]any{"pre": p.name, "op": o, "crash": v.Desc})
		}
		if strings.HasPrefix(v.Desc, "killed after the last call") && got != postKey {
			c.fail("acknowledged-lost", p, []Op{o}, fmt.Sprintf("%s: the call had returned success but recovery yields %s", v.Desc, got), map[string]any{"pre": p.name, "op": o, "crash": v.Desc})
		}
		if got != preKey {
			c.sec.Nontrivial++
		}
		// life goes on after the crash: restart, perform further operations (one that shrinks and one that
		// grows the file), restart again; whatever the interrupted save left behind must not get in the way
		if got == preKey || got == postKey {
			for _, follow := range [][]Op{{{Kind: "delete", Name: "a"}}, {{Kind: "put", Name: "zz-after-crash", Value: "a value that makes the file longer than before"}, {Kind: "delete", Name: "zz-after-crash"}}} {
				if err := fsx.Materialize(rdir, v); err != nil {
					panic(err)
				}
				d2, err := db.Open(filepath.Join(rdir, "db"), kek, hx.Discard())
				if err != nil {
					break
				}
				m2 := hx.ToModel(d2)
				bad := false
				for _, f := range follow {
					if _, err := apply(d2, f); err != nil {
						c.fail("operation-after-crash-fails", p, []Op{o, f}, fmt.Sprintf("%s, restart, then %v: %v", v.Desc, f, err), map[string]any{"pre": p.name, "op": o, "crash": v.Desc, "follow": f})
						bad = true
						break
					}
					applyModel(m2, f)
				}
				if bad {
					continue
				}
				c.sec.Evaluations++
				c.sec.Extra["post_crash_followups"]++
				if k := hx.DumpKey(d2); k != m2.Key() {
					c.fail("state-after-crash-and-followup", p, append([]Op{o}, follow...), fmt.Sprintf("%s, restart, then %v: database holds %s, model %s", v.Desc, follow, k, m2.Key()), nil)
				}
				if got2, err := recoverDump(rdir); err != nil || got2 != m2.Key() {
					c.fail("unreadable-after-crash-and-followup", p, append([]Op{o}, follow...), fmt.Sprintf("%s, restart, then %v (acknowledged), restart: the database opens as %q err=%v, model %s", v.Desc, follow, got2, err, m2.Key()), map[string]any{"pre": p.name, "op": o, "crash": v.Desc, "follow": follow})
				}
			}
		}
	}
}

// faults injects a fault at every mutating call of o (and, with o2, at every
// pair of calls of two consecutive operations).
func (c *ctx) faults(p pre, o Op, o2 *Op) {
	dir := filepath.Join(c.base, "live")
	rdir := filepath.Join(c.base, "recover")
	// how many calls does a clean run issue?
	n := c.countCalls(p, o)
	type fp struct{ at, short int }
	var points []fp
	for k := 0; k < n; k++ {
		points = append(points, fp{k, 0})
	}
	// partial writes: the write is call 1 of the atomic protocol on the unchanged tree; add a half-written variant for every call (only writes use it)
	for k := 0; k < n; k++ {
		points = append(points, fp{k, 97})
	}
	for _, pt := range points {
		m := build(dir, p)
		preKey := m.Key()
		var d *db.DB
		var err error
		if o.Kind != "create" {
			d, err = db.Open(filepath.Join(dir, "db"), kek, hx.Discard())
			if err != nil {
				panic(err)
			}
		} else {
			os.Remove(filepath.Join(dir, "db"))
			preKey = model.NewKV().Key()
			m = model.NewKV()
		}
		rec := fsx.NewRecorder(dir)
		rec.Baseline()
		rec.FaultAt, rec.FaultShort = pt.at, pt.short
		vos.SetHook(rec)
		if o.Kind == "create" {
			d, err = db.Open(filepath.Join(dir, "db"), kek, hx.Discard())
		} else {
			_, err = apply(d, o)
		}
		vos.SetHook(nil)
		if !rec.Fired {
			continue
		}
		if pt.short > 0 && !strings.HasPrefix(rec.Calls[rec.MutIdx[pt.at]].Op, "write") {
			continue // partial persistence only applies to writes
		}
		c.sec.Evaluations++
		c.sec.Extra["single_faults"]++
		faultDesc := fmt.Sprintf("fault at call %d (%s, %d bytes persisted)", pt.at, rec.Calls[rec.MutIdx[pt.at]].String(), pt.short)
		replay := map[string]any{"pre": p.name, "op": o, "fault_at": pt.at, "short": pt.short}
		if err := rec.CheckNotInPlace("db"); err != nil {
			c.fail("in-place-write-after-fault", p, []Op{o}, faultDesc+": "+err.Error(), replay)
		}
		if err == nil {
			// The call reports success although a step failed (the code may have retried or worked around it).
			// Then everything a successful call promises must hold: served state and file hold the post state,
			// and what was installed was written to a separate file, flushed, and renamed.
			applyModel(m, o)
			if d != nil {
				if k := hx.DumpKey(d); k != m.Key() {
					c.fail("success-after-fault-state", p, []Op{o}, fmt.Sprintf("%s: the call reported success; served state %s, expected post state %s", faultDesc, k, m.Key()), replay)
				}
			}
			copyDir(dir, rdir)
			if got, rerr := recoverDump(rdir); rerr != nil || got != m.Key() {
				c.fail("success-after-fault-file", p, []Op{o}, fmt.Sprintf("%s: the call reported success but the file opens as %q err=%v, expected %s", faultDesc, got, rerr, m.Key()), replay)
			}
			if perr := rec.CheckAtomicProtocol("db"); perr != nil {
				c.fail("success-after-fault-protocol", p, []Op{o}, fmt.Sprintf("%s: the call reported success, but %v", faultDesc, perr), replay)
			}
			continue
		}
		c.sec.Nontrivial++
		if o.Kind == "create" {
			// no database object; the directory must hold nothing or a complete empty database
			if _, serr := os.Stat(filepath.Join(dir, "db")); serr == nil {
				if got, rerr := recoverDump(dir); rerr != nil || got != preKey {
					c.fail("create-fault-left-bad-file", p, []Op{o}, fmt.Sprintf("%s: file left behind opens as %q err=%v", faultDesc, got, rerr), replay)
				}
			}
			d, err = db.Open(filepath.Join(dir, "db"), kek, hx.Discard())
			if err != nil {
				c.fail("create-after-fault", p, []Op{o}, faultDesc+": later creation fails: "+err.Error(), replay)
			}
			continue
		}
		if k := hx.DumpKey(d); k != preKey {
			c.fail("served-state-after-fault", p, []Op{o}, fmt.Sprintf("%s: the running database now holds %s, pre-call state was %s", faultDesc, k, preKey), replay)
		}
		copyDir(dir, rdir)
		if got, rerr := recoverDump(rdir); rerr != nil || got != preKey {
			c.fail("file-after-fault", p, []Op{o}, fmt.Sprintf("%s: file on disk opens as %q err=%v, pre-call state was %s", faultDesc, got, rerr, preKey), replay)
		}
		if o2 != nil {
			// second operation, faulted at every call
			n2 := c.countCalls(p, *o2)
			for k2 := 0; k2 < n2; k2++ {
				m2 := build(dir, p)
				d2, _ := db.Open(filepath.Join(dir, "db"), kek, hx.Discard())
				r1 := fsx.NewRecorder(dir)
				r1.Baseline()
				r1.FaultAt, r1.FaultShort = pt.at, pt.short
				vos.SetHook(r1)
				_, e1 := apply(d2, o)
				vos.SetHook(nil)
				r2 := fsx.NewRecorder(dir)
				r2.Baseline()
				r2.FaultAt = k2
				vos.SetHook(r2)
				_, e2 := apply(d2, *o2)
				vos.SetHook(nil)
				if !r1.Fired || !r2.Fired || e1 == nil || e2 == nil {
					continue
				}
				c.sec.Evaluations++
				c.sec.Extra["fault_pairs"]++
				c.followUp(p, []Op{o, *o2}, d2, m2, dir, rdir, fmt.Sprintf("%s then fault at call %d of %v", faultDesc, k2, *o2), map[string]any{"pre": p.name, "op": o, "fault_at": pt.at, "short": pt.short, "op2": *o2, "fault2_at": k2})
			}
			continue
		}
		c.followUp(p, []Op{o}, d, m, dir, rdir, faultDesc, replay)
		// the same fault once more, followed by later calls in another order: the first later call goes to a
		// secret the failed call did not touch (what a failed call leaves behind in memory for its own
		// secret then reaches the file through somebody else's save)
		m3 := build(dir, p)
		d3, err := db.Open(filepath.Join(dir, "db"), kek, hx.Discard())
		if err != nil {
			panic(err)
		}
		r3 := fsx.NewRecorder(dir)
		r3.Baseline()
		r3.FaultAt, r3.FaultShort = pt.at, pt.short
		vos.SetHook(r3)
		_, e3 := apply(d3, o)
		vos.SetHook(nil)
		if r3.Fired && e3 != nil {
			c.sec.Extra["single_faults_other_secret_first"]++
			c.followUpOrder(p, []Op{o}, d3, m3, dir, rdir, faultDesc, replay, []Op{{Kind: "put", Name: "fresh", Value: "f"}, {Kind: "put", Name: "a", Value: "after-fault"}, {Kind: "put", Name: "a", Value: ""}})
		}
		// the fault once more, and then the caller simply tries the very same call again on a healthy disk:
		// it must now succeed and be on disk (a retry is the most likely call to follow a failed one)
		if o.Kind != "create" {
			m5 := build(dir, p)
			d5, err := db.Open(filepath.Join(dir, "db"), kek, hx.Discard())
			if err != nil {
				panic(err)
			}
			r5 := fsx.NewRecorder(dir)
			r5.Baseline()
			r5.FaultAt, r5.FaultShort = pt.at, pt.short
			vos.SetHook(r5)
			_, e5 := apply(d5, o)
			vos.SetHook(nil)
			if r5.Fired && e5 != nil {
				c.sec.Evaluations++
				c.sec.Extra["retries_of_the_failed_call"]++
				if _, err := apply(d5, o); err != nil {
					c.fail("retry-after-fault-fails", p, []Op{o, o}, fmt.Sprintf("%s: the same call again, without a fault, fails: %v", faultDesc, err), replay)
				} else {
					applyModel(m5, o)
					if k := hx.DumpKey(d5); k != m5.Key() {
						c.fail("retry-after-fault-state", p, []Op{o, o}, fmt.Sprintf("%s: after the same call again (acknowledged) the running database holds %s, model %s", faultDesc, k, m5.Key()), replay)
					}
					copyDir(dir, rdir)
					if got, err := recoverDump(rdir); err != nil || got != m5.Key() {
						c.fail("retry-after-fault-not-on-disk", p, []Op{o, o}, fmt.Sprintf("%s: the same call again was acknowledged, but after a restart the file opens as %q err=%v, model %s", faultDesc, got, err, m5.Key()), replay)
					}
				}
			}
		}
		// and once more with a cause that outlasts the failing step: from the faulted call on, every
		// file-system call of the operation fails, reads of the live file included; it ends when the call returns
		if pt.short == 0 {
			m4 := build(dir, p)
			d4, err := db.Open(filepath.Join(dir, "db"), kek, hx.Discard())
			if err != nil {
				panic(err)
			}
			r4 := fsx.NewRecorder(dir)
			r4.Baseline()
			r4.FaultAt, r4.FaultSticky = pt.at, true
			vos.SetHook(r4)
			_, e4 := apply(d4, o)
			vos.SetHook(nil)
			if r4.Fired && e4 != nil {
				c.sec.Evaluations++
				c.sec.Extra["lasting_faults"]++
				c.followUpOrder(p, []Op{o}, d4, m4, dir, rdir, faultDesc+", and every later file-system call of the operation fails too", replay, []Op{{Kind: "put", Name: "fresh", Value: "f"}, {Kind: "put", Name: "a", Value: "after-fault"}})
			} else if r4.Fired && e4 == nil {
				c.fail("success-after-lasting-fault", p, []Op{o}, faultDesc+", and every later file-system call of the operation fails too: the call reported success", replay)
			}
		}
	}
}

// followUp: after failed calls, state is pre; later fault-free calls succeed and match the model, also after a restart.
func (c *ctx) followUp(p pre, ops []Op, d *db.DB, m *model.KV, dir, rdir, desc string, replay any) {
	c.followUpOrder(p, ops, d, m, dir, rdir, desc, replay, []Op{{Kind: "put", Name: "a", Value: "after-fault"}, {Kind: "put", Name: "a", Value: ""}, {Kind: "put", Name: "fresh", Value: "f"}})
}

func (c *ctx) followUpOrder(p pre, ops []Op, d *db.DB, m *model.KV, dir, rdir, desc string, replay any, later []Op) {
	if k := hx.DumpKey(d); k != m.Key() {
		c.fail("served-state-after-fault", p, ops, fmt.Sprintf("%s: running database holds %s, pre-call state %s", desc, k, m.Key()), replay)
		return
	}
	for _, f := range later {
		want, _ := m.Put(f.Name, f.Value)
		got, err := apply(d, f)
		if err != nil || got != want {
			c.fail("later-call-after-fault", p, ops, fmt.Sprintf("%s: later %v returned v%d err=%v, model says v%d", desc, f, got, err, want), replay)
			return
		}
		// a restart right after each later call, not only after the last: damage that the next save
		// would paper over must be seen
		copyDir(dir, rdir)
		if got, err := recoverDump(rdir); err != nil || got != m.Key() {
			c.fail("later-restart-after-fault", p, ops, fmt.Sprintf("%s: after later %v and a restart the file opens as %q err=%v, model %s", desc, f, got, err, m.Key()), replay)
			return
		}
	}
	if k := hx.DumpKey(d); k != m.Key() {
		c.fail("later-state-after-fault", p, ops, fmt.Sprintf("%s: after later calls the database holds %s, model %s", desc, k, m.Key()), replay)
	}
	copyDir(dir, rdir)
	if got, err := recoverDump(rdir); err != nil || got != m.Key() {
		c.fail("later-restart-after-fault", p, ops, fmt.Sprintf("%s: after later calls and a restart the file opens as %q err=%v, model %s", desc, got, err, m.Key()), replay)
	}
	for n, s := range m.S {
		for v, b := range s.Versions {
			sv, err := d.GetVersion(hx.Super(), n, api.SecretVersion(v))
			if err != nil || string(sv.Value) != b {
				c.fail("later-read-after-fault", p, ops, fmt.Sprintf("%s: GetVersion(%s,%d) = %v, model has %q", desc, n, v, err, b), replay)
			}
		}
	}
}

func (c *ctx) countCalls(p pre, o Op) int {
	dir := filepath.Join(c.base, "count")
	build(dir, p)
	defer os.RemoveAll(dir)
	var d *db.DB
	if o.Kind != "create" {
		d, _ = db.Open(filepath.Join(dir, "db"), kek, hx.Discard())
	} else {
		os.Remove(filepath.Join(dir, "db"))
	}
	rec := fsx.NewRecorder(dir)
	vos.SetHook(rec)
	if o.Kind == "create" {
		db.Open(filepath.Join(dir, "db"), kek, hx.Discard())
	} else {
		apply(d, o)
	}
	vos.SetHook(nil)
	return rec.NumMutating()
}

// candidate operations tried from every generated pre-state
var candidates = []Op{
	{Kind: "put", Name: "a", Value: "new"}, {Kind: "put", Name: "a", Value: ""}, {Kind: "put", Name: "b", Value: "bee"},
	{Kind: "activate", Name: "a", Ver: 1}, {Kind: "activate", Name: "a", Ver: 2}, {Kind: "activate", Name: "a", Ver: 3},
	{Kind: "delver", Name: "a", Ver: 1}, {Kind: "delver", Name: "a", Ver: 2}, {Kind: "delver", Name: "a", Ver: 3},
	{Kind: "delete", Name: "a"}, {Kind: "delete", Name: "b"},
}

// genPres enumerates pre-states reachable within depth by the candidate operations (distinct model states).
func genPres(depth int) []pre {
	seen := map[string]bool{model.NewKV().Key(): true}
	out := []pre{{name: "gen:empty"}}
	frontier := []pre{{name: "gen:empty"}}
	for l := 0; l < depth; l++ {
		var next []pre
		for _, p := range frontier {
			for _, o := range candidates {
				m := model.NewKV()
				for _, x := range p.ops {
					applyModel(m, x)
				}
				before := m.Key()
				applyModel(m, o)
				if m.Key() == before || seen[m.Key()] {
					continue
				}
				seen[m.Key()] = true
				ops := append(append([]Op{}, p.ops...), o)
				var nm []string
				for _, x := range ops {
					nm = append(nm, x.String())
				}
				np := pre{name: "gen:" + strings.Join(nm, ","), ops: ops}
				out = append(out, np)
				next = append(next, np)
			}
		}
		frontier = next
	}
	return out
}

// effectiveOps returns the candidate operations that change the given pre-state.
func effectiveOps(p pre) []Op {
	var out []Op
	for _, o := range candidates {
		m := model.NewKV()
		for _, x := range p.ops {
			applyModel(m, x)
		}
		before := m.Key()
		applyModel(m, o)
		if m.Key() != before {
			out = append(out, o)
		}
	}
	return out
}

func TestCheck(t *testing.T) {
	env := report.FromEnv()
	rep := env.New("C04")
	defer rep.Guard(env)
	rep.Assumptions = []string{
		"crash model: every file-system call issued so far took full effect (kill), a write may have persisted only a prefix (torn), and data not yet fsynced may vanish while renames already issued persist (power loss)",
		"leftover temporary files after a crash are not a violation (the property does not mention them)",
		"faults are injected one call at a time (and in pairs across two consecutive operations); a failing write may persist a prefix first",
	}
	base := hx.Scratch("c04-")
	defer os.RemoveAll(base)
	crash := rep.Add(&report.Section{Name: "crash-points", Engine: "fsx", Exhaustive: true, Extra: map[string]int64{},
		Rule: "for each kind of mutating operation from each pre-state: one clean run under the call recorder, then every kill point, every torn variant of each write (1, n/2, n-1 bytes), and every power-loss subset of unsynced files at each of those; recovery = db.Open with the same key; non-trivial = variants that recover to the post state"})
	c := &ctx{rep: rep, sec: crash, base: base}
	c.crashes(pre{name: "no-file"}, Op{Kind: "create"})
	for _, p := range pres {
		for _, o := range opsFor(p) {
			c.crashes(p, o)
		}
	}
	fault := rep.Add(&report.Section{Name: "injected-faults", Engine: "fsx", Exhaustive: true, Extra: map[string]int64{},
		Rule: "for each operation: an injected error at every mutating file-system call (writes also after a partial write), then fault pairs across two consecutive operations; after each: error reported, served state, write generation and file equal the pre-call state, after each single fault the same call is retried on a healthy disk (it must succeed and be on disk after a restart); each single fault also as a lasting one (every later file-system call of the operation fails too, reads included); later calls (in two orders: the failed call's own secret first, another secret first) and a restart after each match the model; non-trivial = runs in which the fault fired and the call failed"})
	c = &ctx{rep: rep, sec: fault, base: base}
	c.faults(pre{name: "no-file"}, Op{Kind: "create"}, nil)
	for _, p := range pres {
		ops := opsFor(p)
		for _, o := range ops {
			c.faults(p, o, nil)
		}
		if env.Thorough() || p.name == "a12" {
			for _, o := range ops {
				for _, o2 := range ops {
					o2 := o2
					c.faults(p, o, &o2)
				}
			}
		}
	}
	if env.Thorough() {
		deep := rep.Add(&report.Section{Name: "generated-pre-states-depth4", Engine: "fsx", Exhaustive: true, Extra: map[string]int64{},
			Rule: "every database state reachable within four operations × every operation that changes it: all crash variants and all single faults (as in the first two sections); non-trivial = crash variants recovering to the post state + fault runs in which the call failed"})
		c = &ctx{rep: rep, sec: deep, base: base}
		for _, p := range genPres(4) {
			if env.Expired() {
				deep.Exhaustive = false
				break
			}
			for _, o := range effectiveOps(p) {
				c.crashes(p, o)
				c.faults(p, o, nil)
			}
			deep.Extra["pre_states"]++
		}
	}
	straceSection(t, rep, base)
	if err := rep.Write(env); err != nil {
		t.Fatal(err)
	}
}

// TestHelperSave performs one database creation and one put; it is run under
// strace by straceSection, with the shim's call log written next to it.
func TestHelperSave(t *testing.T) {
	dir := os.Getenv("C04_HELPER_DIR")
	if dir == "" {
		t.Skip()
	}
	rec := fsx.NewRecorder(dir)
	vos.SetHook(rec)
	d, err := db.Open(filepath.Join(dir, "db"), kek, hx.Discard())
	if err != nil {
		t.Fatal(err)
	}
	if _, err := d.Put(hx.Super(), "a", []byte("x")); err != nil {
		t.Fatal(err)
	}
	vos.SetHook(nil)
	var out []string
	for _, c := range rec.Calls {
		if c.Inside && c.Mutating && c.Op != "close" {
			out = append(out, c.Op+" "+c.Path)
			if c.Op == "rename" {
				out[len(out)-1] += " " + c.Path2
			}
		}
	}
	b, _ := json.Marshal(out)
	os.WriteFile(filepath.Join(dir, "..", "shimlog.json"), b, 0o600)
}

var reFD = regexp.MustCompile(`^\S*\(?(\d+)<([^>]*)>`)

// straceSection validates the shim's call log against the kernel's view.
func straceSection(t *testing.T, rep *report.Report, base string) {
	sec := rep.Add(&report.Section{Name: "strace-conformance", Engine: "fsx", Exhaustive: true, Extra: map[string]int64{},
		Rule: "the sequence of mutating system calls (openat O_CREAT|O_EXCL, write, fchmod, fsync, rename) that the kernel sees for a database creation and a put equals the sequence the vos shim logged for the same process"})
	if _, err := exec.LookPath("strace"); err != nil {
		sec.Exhaustive = false
		sec.Notes = append(sec.Notes, "strace not available")
		return
	}
	hd := filepath.Join(base, "strace", "d")
	os.MkdirAll(hd, 0o700)
	logp := filepath.Join(base, "strace", "trace.log")
	cmd := exec.Command("strace", "-f", "-y", "-e", "trace=openat,write,fchmod,fchmodat,fsync,fdatasync,rename,renameat,renameat2,unlink,unlinkat,ftruncate,truncate", "-o", logp, os.Args[0], "-test.run", "^TestHelperSave$")
	cmd.Env = append(os.Environ(), "C04_HELPER_DIR="+hd)
	if out, err := cmd.CombinedOutput(); err != nil {
		sec.Exhaustive = false
		sec.Notes = append(sec.Notes, "strace run failed: "+err.Error()+" "+report.Clip(string(out), 200))
		return
	}
	var shim []string
	b, _ := os.ReadFile(filepath.Join(base, "strace", "shimlog.json"))
	json.Unmarshal(b, &shim)
	f, err := os.Open(logp)
	if err != nil {
		sec.Exhaustive = false
		return
	}
	defer f.Close()
	var kern []string
	sc := bufio.NewScanner(f)
	sc.Buffer(make([]byte, 1<<20), 1<<20)
	for sc.Scan() {
		line := sc.Text()
		if i := strings.Index(line, " "); i > 0 { // strip pid
			line = strings.TrimSpace(line[i:])
		}
		if !(strings.Contains(line, hd+"/") || strings.Contains(line, hd+">") || strings.Contains(line, hd+`"`)) || strings.Contains(line, "= -1") {
			continue
		}
		rel := func(p string) string {
			if p == hd {
				return "." // the directory itself (a directory fsync)
			}
			return strings.TrimPrefix(p, hd+"/")
		}
		switch {
		case strings.HasPrefix(line, "openat("):
			if strings.Contains(line, "O_CREAT") || strings.Contains(line, "O_TRUNC") || strings.Contains(line, "O_WRONLY") || strings.Contains(line, "O_RDWR") {
				q := strings.Split(line, `"`)
				if len(q) >= 2 {
					op := "open"
					if strings.Contains(line, "O_EXCL") {
						op = "createtemp"
					}
					kern = append(kern, op+" "+rel(q[1]))
				}
			}
		case strings.HasPrefix(line, "write("), strings.HasPrefix(line, "fchmod("), strings.HasPrefix(line, "fsync("), strings.HasPrefix(line, "fdatasync("), strings.HasPrefix(line, "ftruncate("):
			m := reFD.FindStringSubmatch(line)
			if m != nil {
				op := line[:strings.Index(line, "(")]
				op = map[string]string{"write": "write", "fchmod": "chmod", "fsync": "sync", "fdatasync": "sync", "ftruncate": "truncate"}[op]
				kern = append(kern, op+" "+rel(m[2]))
			}
		case strings.HasPrefix(line, "rename"):
			q := strings.Split(line, `"`)
			if len(q) >= 4 {
				kern = append(kern, "rename "+rel(q[1])+" "+rel(q[3]))
			}
		case strings.HasPrefix(line, "unlink"):
			q := strings.Split(line, `"`)
			if len(q) >= 2 {
				kern = append(kern, "remove "+rel(q[1]))
			}
		}
	}
	sec.Evaluations = int64(len(kern))
	sec.Nontrivial = int64(len(kern))
	sec.Extra["traces_validated_by_strace"] = 2
	sec.Samples = append(sec.Samples, map[string]any{"kernel": kern, "shim": shim})
	if strings.Join(kern, "\n") != strings.Join(shim, "\n") || len(kern) == 0 {
		rep.Violate(sec.Name, "strace-conformance: shim log differs from kernel trace", fmt.Sprintf("kernel saw %v, shim logged %v", kern, shim), nil)
	}
}
