// check is the runner behind bin/check:
//
//	check <ID> quick|thorough            run the property's check
//	check <ID> --replay <file>           re-execute one recorded violation
//
// It regenerates the overlay from /repo's working tree, builds the property's
// harness test binary with -tags verif, runs the worker shards, merges their
// reports, applies known_findings.json, writes evidence/<ID>.json and replay
// files, prints VIOLATION / KNOWN-FINDING lines and sets the exit status.
package main

import (
	"encoding/json"
	"fmt"
	"os"
	"os/exec"
	"path/filepath"
	"strconv"
	"strings"
	"sync"
	"time"

	"verif/report"
)

type propCfg struct {
	Harness    string   `json:"harness"` // directory under harness/
	Level      string   `json:"level"`
	Shards     int      `json:"shards"`
	QuickS     int      `json:"quick_budget_s"`
	ThoroughS  int      `json:"thorough_budget_s"`
	Assume     []string `json:"assumptions"`
	Rule       string   `json:"rule"`
	GoMaxProcs int      `json:"gomaxprocs"`
	RaceTest   string   `json:"race_test"` // auxiliary free-running -race pass (harness/race)
}

type known struct {
	Findings []struct {
		Property string `json:"property"`
		Key      string `json:"key"`
		What     string `json:"what"`
	} `json:"findings"`
	Fixed []struct {
		Property string `json:"property"`
		Commit   string `json:"commit"`
		What     string `json:"what"`
	} `json:"fixed"`
}

func env() []string {
	return append(os.Environ(), "GOFLAGS=-mod=mod", "GOPROXY=off", "GOSUMDB=off", "GOTOOLCHAIN=local", "CGO_ENABLED=0")
}

// crashReport turns the log of a worker that crashed inside the code under test into a report with one violation.
func crashReport(id, tier, logPath string) *report.Report {
	b, err := os.ReadFile(logPath)
	if err != nil {
		return nil
	}
	text := string(b)
	at := strings.Index(text, "panic: ")
	if k := strings.Index(text, "fatal error: "); k >= 0 && (at < 0 || k < at) {
		at = k
	}
	if at < 0 || !strings.Contains(text[at:], "github.com/tailscale/setec/") {
		return nil
	}
	first := text[at:]
	if j := strings.IndexByte(first, '\n'); j >= 0 {
		first = first[:j]
	}
	// the goroutine that crashed: up to the first blank line after the header
	excerpt := text[at:]
	if len(excerpt) > 3000 {
		excerpt = excerpt[:3000]
	}
	r := &report.Report{Property: id, Tier: tier}
	sec := r.Add(&report.Section{Name: "worker-crash", Engine: "enum"})
	r.Violate(sec.Name, "crash-in-code-under-test: "+report.Clip(first, 160), "the code under test brought the process down ("+first+"):\n"+excerpt, nil)
	return r
}

func die(code int, format string, a ...any) {
	fmt.Fprintf(os.Stderr, "check: "+format+"\n", a...)
	os.Exit(code)
}

func main() {
	if len(os.Args) < 3 {
		die(2, "usage: check <ID> quick|thorough | --replay <file>")
	}
	root := os.Getenv("VERIF_ROOT")
	if root == "" {
		root = "/verif"
	}
	repo := os.Getenv("VERIF_REPO")
	if repo == "" {
		repo = "/repo"
	}
	id := os.Args[1]
	tier := os.Args[2]
	replay := ""
	if tier == "--replay" {
		if len(os.Args) < 4 {
			die(2, "--replay needs a file")
		}
		replay, _ = filepath.Abs(os.Args[3])
		tier = "quick"
	}
	var cfgs map[string]propCfg
	b, err := os.ReadFile(filepath.Join(root, "checks.json"))
	if err != nil {
		die(2, "%v", err)
	}
	if err := json.Unmarshal(b, &cfgs); err != nil {
		die(2, "checks.json: %v", err)
	}
	cfg, ok := cfgs[id]
	if !ok {
		die(2, "no check configured for %s", id)
	}
	t0 := time.Now()
	build := filepath.Join(root, ".build", id+"-"+tier)
	os.MkdirAll(build, 0o755)

	// 1. overlay from the current working tree
	mk := filepath.Join(root, ".build", "bin", "mkoverlay")
	if _, err := os.Stat(mk); err != nil {
		c := exec.Command("go1.26.8", "build", "-o", mk, "./cmd/mkoverlay")
		c.Dir, c.Env, c.Stderr = root, env(), os.Stderr
		if err := c.Run(); err != nil {
			die(2, "building mkoverlay: %v", err)
		}
	}
	c := exec.Command(mk, "-repo", repo, "-out", build, "-verif", root)
	c.Env, c.Stderr, c.Stdout = env(), os.Stderr, os.Stderr
	if err := c.Run(); err != nil {
		die(2, "mkoverlay failed (does the tree compile?): %v", err)
	}
	// 2. harness binary
	bin := filepath.Join(build, "harness.test")
	modfile := "-modfile=" + filepath.Join(root, "go.mod")
	if repo != "/repo" {
		// a tree elsewhere (scratch worktrees when trying out changes): same module file with the
		// replace directive pointing there
		gm, err := os.ReadFile(filepath.Join(root, "go.mod"))
		if err != nil {
			die(2, "%v", err)
		}
		gs, _ := os.ReadFile(filepath.Join(root, "go.sum"))
		alt := filepath.Join(build, "alt.mod")
		os.WriteFile(alt, []byte(strings.Replace(string(gm), "=> /repo", "=> "+repo, 1)), 0o644)
		os.WriteFile(filepath.Join(build, "alt.sum"), gs, 0o644)
		modfile = "-modfile=" + alt
	}
	c = exec.Command("go1.26.8", "test", "-c", modfile, "-vet=off", "-tags", "verif", "-overlay", filepath.Join(build, "overlay.json"), "-o", bin, "./harness/"+cfg.Harness)
	c.Dir, c.Env, c.Stderr, c.Stdout = root, env(), os.Stderr, os.Stderr
	if err := c.Run(); err != nil {
		die(2, "building harness %s against the current tree failed: %v", cfg.Harness, err)
	}
	// 3. workers
	n := cfg.Shards
	if n <= 0 {
		n = 1
	}
	if s := os.Getenv("VERIF_PROCS"); s != "" {
		if v, err := strconv.Atoi(s); err == nil && v > 0 && n > 1 {
			n = v
		}
	}
	if replay != "" {
		n = 1
	}
	budget := cfg.QuickS
	if tier == "thorough" {
		budget = cfg.ThoroughS
	}
	if s := os.Getenv("VERIF_BUDGET_S"); s != "" {
		budget, _ = strconv.Atoi(s)
	}
	seed := os.Getenv("VERIF_SEED")
	if seed == "" {
		seed = "0"
	}
	gmp := cfg.GoMaxProcs
	if gmp == 0 {
		if n > 1 {
			gmp = 1
		} else {
			gmp = 16
		}
	}
	scratch, err := os.MkdirTemp("/dev/shm", "verif-"+id+"-")
	if err != nil {
		scratch, _ = os.MkdirTemp("", "verif-"+id+"-")
	}
	defer os.RemoveAll(scratch)
	var wg sync.WaitGroup
	reports := make([]*report.Report, n)
	fails := make([]string, n)
	for i := 0; i < n; i++ {
		wg.Add(1)
		go func(i int) {
			defer wg.Done()
			out := filepath.Join(build, fmt.Sprintf("shard-%d.json", i))
			os.Remove(out)
			logf, _ := os.Create(filepath.Join(build, fmt.Sprintf("shard-%d.log", i)))
			defer logf.Close()
			w := exec.Command(bin, "-test.run", "^TestCheck$", "-test.timeout", "0", "-test.count", "1")
			w.Dir = filepath.Join(root, "harness", cfg.Harness)
			sd := filepath.Join(scratch, strconv.Itoa(i))
			os.MkdirAll(sd, 0o755)
			w.Env = append(env(),
				"VERIF_TIER="+tier, fmt.Sprintf("VERIF_SHARD=%d/%d", i, n), "VERIF_OUT="+out,
				"VERIF_BUDGET_S="+strconv.Itoa(budget), "VERIF_SEED="+seed, "VERIF_REPLAY="+replay,
				"VERIF_SCRATCH="+sd, "VERIF_OVERLAY="+filepath.Join(build, "overlay.json"), "VERIF_ROOT="+root, "VERIF_REPO="+repo, "VERIF_MODFILE="+modfile, "VERIF_PROPERTY="+id,
				"GOMAXPROCS="+strconv.Itoa(gmp), "TMPDIR="+sd)
			w.Stdout, w.Stderr = logf, logf
			err := w.Run()
			b, rerr := os.ReadFile(out)
			if rerr != nil {
				// The worker died without a verdict. If its log shows a Go panic or fatal error with the code
				// under test on the stack (a goroutine of that code panicked, which would take a server or a
				// client process down just the same), that is what this check has to report; anything else
				// is a failure of the machinery.
				if r := crashReport(id, tier, logf.Name()); r != nil {
					reports[i] = r
					return
				}
				fails[i] = fmt.Sprintf("shard %d produced no report (%v); see %s", i, err, logf.Name())
				return
			}
			var r report.Report
			if jerr := json.Unmarshal(b, &r); jerr != nil {
				fails[i] = fmt.Sprintf("shard %d report unreadable: %v", i, jerr)
				return
			}
			reports[i] = &r
		}(i)
	}
	wg.Wait()
	var got []*report.Report
	var engineErrs []string
	for i, r := range reports {
		if r != nil {
			got = append(got, r)
		}
		if fails[i] != "" {
			engineErrs = append(engineErrs, fails[i])
		}
	}
	if len(got) == 0 {
		die(2, "no worker produced a report: %v", engineErrs)
	}
	m := report.Merge(got)
	m.EngineErrors = append(m.EngineErrors, engineErrs...)

	// 3b. auxiliary free-running race pass (sampling; reported separately, see DESIGN.md §2.7)
	raceIters, raceReports := int64(-1), int64(0)
	raceNote := ""
	if cfg.RaceTest != "" && replay == "" {
		rbin := filepath.Join(build, "race.test")
		rc := exec.Command("go1.26.8", "test", "-c", modfile, "-race", "-vet=off", "-tags", "verif", "-overlay", filepath.Join(build, "overlay.json"), "-o", rbin, "./harness/race")
		rc.Dir = root
		rc.Env = append(env(), "CGO_ENABLED=1")
		if out, err := rc.CombinedOutput(); err != nil {
			raceNote = "race build unavailable: " + report.Clip(report.OneLine(string(out)), 200)
		} else {
			rr := exec.Command(rbin, "-test.run", "^"+cfg.RaceTest+"$", "-test.v", "-test.count", "1")
			rr.Dir = filepath.Join(root, "harness", "race")
			rr.Env = append(env(), "VERIF_TIER="+tier, "TMPDIR="+scratch, "GORACE=halt_on_error=0")
			out, _ := rr.CombinedOutput()
			text := string(out)
			raceReports = int64(strings.Count(text, "WARNING: DATA RACE"))
			raceIters = 0
			if i := strings.Index(text, "aux_race_iterations="); i >= 0 {
				fmt.Sscanf(text[i:], "aux_race_iterations=%d", &raceIters)
			}
			if raceReports > 0 {
				// key: the first two function frames of the first report
				var frames []string
				after := text[strings.Index(text, "WARNING: DATA RACE"):]
				for _, ln := range strings.Split(after, "\n") {
					ln = strings.TrimSpace(ln)
					if strings.HasSuffix(ln, ")") && strings.Contains(ln, ".") && !strings.HasPrefix(ln, "/") && !strings.Contains(ln, " ") {
						frames = append(frames, ln[:strings.Index(ln, "(")])
						if len(frames) == 2 {
							break
						}
					}
				}
				m.Violations = append(m.Violations, report.Violation{Key: "data-race: " + strings.Join(frames, " / "), Section: "aux-race", Message: "the race detector reported a data race in the free-running pass (" + cfg.RaceTest + "): " + report.Clip(report.OneLine(after), 700), Replay: map[string]any{"race_test": cfg.RaceTest}})
			} else if !strings.Contains(text, "PASS") {
				raceNote = "race pass did not complete: " + report.Clip(report.OneLine(text), 300)
			}
		}
	}

	// 4. known findings
	var kf known
	if b, err := os.ReadFile(filepath.Join(root, "known_findings.json")); err == nil {
		if err := json.Unmarshal(b, &kf); err != nil {
			die(2, "known_findings.json: %v", err)
		}
	}
	isKnown := func(key string) (string, bool) {
		for _, f := range kf.Findings {
			if f.Property == id && f.Key == key {
				return f.What, true
			}
		}
		return "", false
	}
	os.MkdirAll(filepath.Join(root, "replays"), 0o755)
	os.MkdirAll(filepath.Join(root, "evidence"), 0o755)
	exit := 0
	nviol := 0
	var lines []string
	for _, v := range m.Violations {
		if what, ok := isKnown(v.Key); ok {
			lines = append(lines, fmt.Sprintf("KNOWN-FINDING: property=%s %s [%s]", id, what, v.Key))
			continue
		}
		nviol++
		if nviol > 8 {
			continue
		}
		rp := filepath.Join(root, "replays", id+"-"+report.KeyHash(v.Key)+".json")
		rb, _ := json.MarshalIndent(map[string]any{"property": id, "harness": cfg.Harness, "section": v.Section, "key": v.Key, "message": v.Message, "replay": v.Replay}, "", " ")
		os.WriteFile(rp, rb, 0o644)
		lines = append(lines, fmt.Sprintf("VIOLATION property=%s replay=%s", id, rp))
		lines = append(lines, "  "+report.Clip(report.OneLine(v.Message), 600))
		exit = 1
	}
	if nviol > 8 {
		lines = append(lines, fmt.Sprintf("  (%d further violations of %s not listed; see the shard reports under .build/)", nviol-8, id))
	}
	if replay != "" {
		for _, l := range lines {
			fmt.Println(l)
		}
		if exit == 0 {
			fmt.Println("replay: no violation reproduced")
		}
		os.Exit(exit)
	}

	// 5. evidence
	var ev struct {
		PropertyID  string         `json:"property_id"`
		Tier        string         `json:"tier"`
		Seed        int64          `json:"seed"`
		Level       string         `json:"level"`
		Coverage    map[string]any `json:"coverage"`
		Assumptions []string       `json:"assumptions"`
		WallS       float64        `json:"wall_s"`
		Violations  int            `json:"violations"`
	}
	ev.PropertyID, ev.Tier, ev.Level = id, tier, cfg.Level
	ev.Seed, _ = strconv.ParseInt(seed, 10, 64)
	var evals, states, trans, nontriv int64
	exhaustive := true
	var samples []any
	for _, s := range m.Sections {
		evals += s.Evaluations
		states += s.States
		trans += s.Transitions
		nontriv += s.Nontrivial
		exhaustive = exhaustive && s.Exhaustive
		for _, x := range s.Samples {
			if len(samples) < 8 {
				samples = append(samples, map[string]any{"section": s.Name, "case": x})
			}
		}
	}
	if len(m.EngineErrors) > 0 {
		exhaustive = false
	}
	ev.Coverage = map[string]any{
		"evaluations":                   evals,
		"distinct_nontrivial":           nontriv,
		"states":                        states,
		"transitions":                   trans,
		"traces_validated_against_impl": evals,
		"rule":                          cfg.Rule,
		"samples":                       samples,
		"exhaustive":                    exhaustive,
		"sections":                      m.Sections,
		"engine_errors":                 m.EngineErrors,
		"known_findings_reported":       len(m.Violations) - nviol,
		"worker_processes":              n,
		"aux_race_iterations":           raceIters,
		"aux_race_reports":              raceReports,
		"aux_race_note":                 raceNote,
		"explanation":                   "every evaluation executes setec's own code (built from /repo's working tree through the overlay); there is no separate model, so traces validated against the implementation = evaluations",
	}
	ev.Assumptions = append(append([]string{}, cfg.Assume...), m.Assumptions...)
	if ev.Assumptions == nil {
		ev.Assumptions = []string{}
	}
	ev.WallS = time.Since(t0).Seconds()
	ev.Violations = nviol
	eb, _ := json.MarshalIndent(ev, "", " ")
	if err := os.WriteFile(filepath.Join(root, "evidence", id+".json"), eb, 0o644); err != nil {
		die(2, "%v", err)
	}
	for _, l := range lines {
		fmt.Println(l)
	}
	fmt.Printf("check %s %s: sections=%d evaluations=%d states=%d transitions=%d exhaustive=%v violations=%d known=%d engine_errors=%d wall=%.1fs\n",
		id, tier, len(m.Sections), evals, states, trans, exhaustive, nviol, len(m.Violations)-nviol, len(m.EngineErrors), ev.WallS)
	for _, e := range m.EngineErrors {
		fmt.Println("  engine-error:", report.Clip(report.OneLine(e), 400))
	}
	_ = strings.Join
	os.Exit(exit)
}
