// mkoverlay rewrites setec's source, from /repo's current working tree, into a
// build overlay in which sync, os, math/rand, math/rand/v2, tailscale.com/atomicfile and
// golang.org/x/sync/singleflight are replaced by instrumented mirrors, `go`
// statements give their children deterministic identities and map iteration
// order is owned by the explorer.  /repo itself is never modified.
//
//	mkoverlay -repo /repo -out <dir> [-verif /verif]
//
// writes <dir>/overlay.json, rewritten files under <dir>/src, and regenerates
// <verif>/gen/vatomicfile and <verif>/gen/vsingleflight.
package main

import (
	"bytes"
	"encoding/json"
	"flag"
	"fmt"
	"go/ast"
	"go/format"
	"go/importer"
	"go/parser"
	"go/token"
	"go/types"
	"io"
	"os"
	"os/exec"
	"path/filepath"
	"strconv"
	"strings"
)

var importSwap = map[string]string{
	"sync":                           "verif/shim/vsync",
	"os":                             "verif/shim/vos",
	"math/rand":                      "verif/shim/vrand",
	"math/rand/v2":                   "verif/shim/vrandv2",
	"tailscale.com/atomicfile":       "verif/gen/vatomicfile",
	"golang.org/x/sync/singleflight": "verif/gen/vsingleflight",
}

var pkgs = []string{"db", "audit", "acl", "server", "client/setec"}

type listPkg struct {
	ImportPath string
	Dir        string
	GoFiles    []string
	Export     string
	Name       string
}

func fatal(format string, a ...any) {
	fmt.Fprintf(os.Stderr, "mkoverlay: "+format+"\n", a...)
	os.Exit(2)
}

func goList(dir string, args ...string) []listPkg {
	cmd := exec.Command("go1.26.8", append([]string{"list", "-tags", "verif", "-json=ImportPath,Dir,GoFiles,Export,Name"}, args...)...)
	cmd.Dir = dir
	cmd.Env = append(os.Environ(), "GOFLAGS=-mod=mod", "GOPROXY=off", "GOSUMDB=off", "GOTOOLCHAIN=local")
	var stderr bytes.Buffer
	cmd.Stderr = &stderr
	out, err := cmd.Output()
	if err != nil {
		fatal("go list %v: %v\n%s", args, err, stderr.String())
	}
	dec := json.NewDecoder(bytes.NewReader(out))
	var res []listPkg
	for {
		var p listPkg
		if err := dec.Decode(&p); err == io.EOF {
			break
		} else if err != nil {
			fatal("decode go list: %v", err)
		}
		res = append(res, p)
	}
	return res
}

func main() {
	repo := flag.String("repo", "/repo", "repository root")
	out := flag.String("out", "", "output directory")
	verif := flag.String("verif", "/verif", "verif module root")
	flag.Parse()
	if *out == "" {
		fatal("-out required")
	}
	const mod = "github.com/tailscale/setec/"
	// every library package of the module as it is now (a refactoring may add or move packages);
	// commands (package main) and the test scaffolding are built as they are
	var paths []string
	for _, p := range goList(*repo, "./...") {
		if p.Name == "main" || !strings.HasPrefix(p.ImportPath, mod) || strings.HasSuffix(p.ImportPath, "/setectest") {
			continue
		}
		paths = append(paths, p.ImportPath)
	}
	for _, p := range pkgs {
		found := false
		for _, q := range paths {
			found = found || q == mod+p
		}
		if !found {
			fatal("package %s%s not found in the module", mod, p)
		}
	}
	// export data of all dependencies, for type checking
	exports := map[string]string{}
	all := goList(*repo, append([]string{"-export", "-deps"}, append(paths, "tailscale.com/atomicfile", "golang.org/x/sync/singleflight")...)...)
	byPath := map[string]listPkg{}
	for _, p := range all {
		exports[p.ImportPath] = p.Export
		byPath[p.ImportPath] = p
	}
	fset := token.NewFileSet()
	imp := importer.ForCompiler(fset, "gc", func(path string) (io.ReadCloser, error) {
		e := exports[path]
		if e == "" {
			return nil, fmt.Errorf("no export data for %s", path)
		}
		return os.Open(e)
	})

	overlay := map[string]string{}
	srcOut := filepath.Join(*out, "src")
	os.RemoveAll(srcOut)
	for _, ip := range paths {
		p, ok := byPath[ip]
		if !ok {
			fatal("package %s not listed", ip)
		}
		rel := strings.TrimPrefix(ip, mod)
		files := rewritePackage(fset, imp, p, func(name string) bool { return strings.HasPrefix(name, "verif_") })
		for name, src := range files {
			dst := filepath.Join(srcOut, rel, name)
			os.MkdirAll(filepath.Dir(dst), 0o755)
			if err := os.WriteFile(dst, src, 0o644); err != nil {
				fatal("%v", err)
			}
			overlay[filepath.Join(p.Dir, name)] = dst
		}
	}
	// dependency copies
	for dep, name := range map[string]string{"tailscale.com/atomicfile": "vatomicfile", "golang.org/x/sync/singleflight": "vsingleflight"} {
		p, ok := byPath[dep]
		if !ok {
			fatal("dependency %s not listed", dep)
		}
		files := rewritePackage(fset, imp, p, nil)
		dir := filepath.Join(*verif, "gen", name)
		os.MkdirAll(dir, 0o755)
		want := map[string]bool{}
		for fname, src := range files {
			want[fname] = true
			dst := filepath.Join(dir, fname)
			if old, err := os.ReadFile(dst); err == nil && bytes.Equal(old, src) {
				continue
			}
			tmp := dst + fmt.Sprintf(".tmp%d", os.Getpid())
			if err := os.WriteFile(tmp, src, 0o644); err != nil {
				fatal("%v", err)
			}
			os.Rename(tmp, dst)
		}
		ents, _ := os.ReadDir(dir)
		for _, e := range ents {
			if !want[e.Name()] && strings.HasSuffix(e.Name(), ".go") {
				os.Remove(filepath.Join(dir, e.Name()))
			}
		}
	}
	b, _ := json.MarshalIndent(map[string]any{"Replace": overlay}, "", " ")
	if err := os.WriteFile(filepath.Join(*out, "overlay.json"), b, 0o644); err != nil {
		fatal("%v", err)
	}
}

// rewritePackage returns rewritten sources of the package's files.
func rewritePackage(fset *token.FileSet, imp types.Importer, p listPkg, skip func(string) bool) map[string][]byte {
	var files []*ast.File
	var names []string
	for _, name := range p.GoFiles {
		f, err := parser.ParseFile(fset, filepath.Join(p.Dir, name), nil, parser.ParseComments)
		if err != nil {
			fatal("parse: %v", err)
		}
		files = append(files, f)
		names = append(names, name)
	}
	info := &types.Info{Types: map[ast.Expr]types.TypeAndValue{}}
	conf := types.Config{Importer: imp, Error: func(err error) {}}
	if _, err := conf.Check(p.ImportPath, fset, files, info); err != nil {
		// A tree that does not type-check will not build either; report it.
		fatal("type-check %s: %v", p.ImportPath, err)
	}
	out := map[string][]byte{}
	for i, f := range files {
		if skip != nil && skip(names[i]) {
			continue
		}
		rw := &rewriter{fset: fset, info: info, file: f, fname: names[i], pkg: p.Name}
		rw.run()
		var buf bytes.Buffer
		if err := format.Node(&buf, fset, f); err != nil {
			fatal("print %s: %v", names[i], err)
		}
		out[names[i]] = buf.Bytes()
	}
	return out
}

type rewriter struct {
	fset      *token.FileSet
	info      *types.Info
	file      *ast.File
	fname     string
	pkg       string
	needSched bool
	tmp       int
}

func (rw *rewriter) run() {
	// strip the import comment of the package clause (irrelevant in module mode, but harmless to drop)
	for _, is := range rw.file.Imports {
		path, _ := strconv.Unquote(is.Path.Value)
		if np, ok := importSwap[path]; ok {
			if is.Name == nil {
				// keep the identifier the file already uses
				elems := strings.Split(path, "/")
				base := elems[len(elems)-1]
				if len(elems) > 1 && len(base) > 1 && base[0] == 'v' && strings.Trim(base[1:], "0123456789") == "" {
					base = elems[len(elems)-2] // major-version suffix: math/rand/v2 is package rand
				}
				is.Name = ast.NewIdent(base)
			}
			is.Path.Value = strconv.Quote(np)
		}
	}
	rw.block(rw.file)
	if rw.needSched {
		addImport(rw.file, "vsched", "verif/sched")
	}
}

func addImport(f *ast.File, name, path string) {
	spec := &ast.ImportSpec{Name: ast.NewIdent(name), Path: &ast.BasicLit{Kind: token.STRING, Value: strconv.Quote(path)}}
	decl := &ast.GenDecl{Tok: token.IMPORT, Specs: []ast.Spec{spec}}
	f.Decls = append([]ast.Decl{decl}, f.Decls...)
	f.Imports = append(f.Imports, spec)
}

// block walks all statement lists and rewrites go statements and map ranges.
func (rw *rewriter) block(n ast.Node) {
	ast.Inspect(n, func(n ast.Node) bool {
		switch b := n.(type) {
		case *ast.BlockStmt:
			b.List = rw.stmts(b.List)
		case *ast.CaseClause:
			b.Body = rw.stmts(b.Body)
		case *ast.CommClause:
			b.Body = rw.stmts(b.Body)
			if b.Comm != nil && os.Getenv("VERIF_WOKE") == "1" {
				// (opt-in, VERIF_WOKE=1: it multiplies the schedules and no registered command sets it)
				// the goroutine that comes out of a select is given a scheduling point before it goes
				// on: what other goroutines do between the channel operation and its continuation
				// (e.g. between a result being delivered and the caller returning) is then explored
				rw.needSched = true
				site := &ast.BasicLit{Kind: token.STRING, Value: strconv.Quote(rw.site(b.Pos()))}
				b.Body = append([]ast.Stmt{&ast.ExprStmt{X: schedCall("Woke", site)}}, b.Body...)
			}
		}
		return true
	})
}

func (rw *rewriter) stmts(list []ast.Stmt) []ast.Stmt {
	for i, s := range list {
		switch st := s.(type) {
		case *ast.GoStmt:
			list[i] = rw.goStmt(st)
		case *ast.RangeStmt:
			if ns := rw.rangeStmt(st); ns != nil {
				list[i] = ns
			}
		}
	}
	return list
}

func (rw *rewriter) site(pos token.Pos) string {
	p := rw.fset.Position(pos)
	return fmt.Sprintf("%s:%d", rw.fname, p.Line)
}

func (rw *rewriter) newTmp(prefix string) *ast.Ident {
	rw.tmp++
	return ast.NewIdent(fmt.Sprintf("%s__%d", prefix, rw.tmp))
}

func schedCall(fn string, args ...ast.Expr) *ast.CallExpr {
	return &ast.CallExpr{Fun: &ast.SelectorExpr{X: ast.NewIdent("vsched"), Sel: ast.NewIdent(fn)}, Args: args}
}

func (rw *rewriter) goStmt(st *ast.GoStmt) ast.Stmt {
	rw.needSched = true
	site := &ast.BasicLit{Kind: token.STRING, Value: strconv.Quote(rw.site(st.Pos()))}
	call := st.Call
	if fl, ok := call.Fun.(*ast.FuncLit); ok && len(call.Args) == 0 {
		return &ast.ExprStmt{X: schedCall("GoSite", site, fl)}
	}
	// evaluate function value and arguments now, as the go statement does
	var lhs, rhs []ast.Expr
	var fn ast.Expr = call.Fun
	if tv, ok := rw.info.Types[call.Fun]; !ok || !tv.IsBuiltin() {
		id := rw.newTmp("gofn")
		lhs = append(lhs, id)
		rhs = append(rhs, call.Fun)
		fn = id
	}
	var args []ast.Expr
	for _, a := range call.Args {
		if tv, ok := rw.info.Types[a]; ok && (tv.Value != nil || tv.IsNil()) {
			args = append(args, a) // constants and nil keep their untyped form
			continue
		}
		t := rw.newTmp("goarg")
		lhs = append(lhs, t)
		rhs = append(rhs, a)
		args = append(args, t)
	}
	inner := &ast.CallExpr{Fun: fn, Args: args, Ellipsis: call.Ellipsis}
	lit := &ast.FuncLit{Type: &ast.FuncType{Params: &ast.FieldList{}}, Body: &ast.BlockStmt{List: []ast.Stmt{&ast.ExprStmt{X: inner}}}}
	var list []ast.Stmt
	if len(lhs) > 0 {
		list = append(list, &ast.AssignStmt{Lhs: lhs, Tok: token.DEFINE, Rhs: rhs})
	}
	list = append(list, &ast.ExprStmt{X: schedCall("GoSite", site, lit)})
	return &ast.BlockStmt{List: list}
}

func isBlank(e ast.Expr) bool {
	id, ok := e.(*ast.Ident)
	return e == nil || (ok && id.Name == "_")
}

func (rw *rewriter) rangeStmt(st *ast.RangeStmt) ast.Stmt {
	tv, ok := rw.info.Types[st.X]
	if !ok {
		return nil
	}
	mt, ok := tv.Type.Underlying().(*types.Map)
	if !ok {
		return nil
	}
	// key type must be ordered (string or numeric basic type)
	kb, ok := mt.Key().Underlying().(*types.Basic)
	if !ok || kb.Info()&(types.IsOrdered) == 0 {
		return nil
	}
	if st.Tok != token.DEFINE {
		return nil
	}
	if isBlank(st.Key) && isBlank(st.Value) {
		return nil
	}
	// refuse loops that insert into or delete from the ranged map
	keyName := ""
	if kid, ok := st.Key.(*ast.Ident); ok {
		keyName = kid.Name
	}
	if id := exprString(st.X); id != "" && mutatesMap(st.Body, id, keyName) {
		fmt.Fprintf(os.Stderr, "mkoverlay: note: %s: range over %s not rewritten (loop mutates the map)\n", rw.site(st.Pos()), id)
		return nil
	}
	rw.needSched = true
	m := rw.newTmp("rm")
	var key ast.Expr = st.Key
	if isBlank(st.Key) {
		key = rw.newTmp("rk")
	}
	body := st.Body
	if !isBlank(st.Value) {
		assign := &ast.AssignStmt{Lhs: []ast.Expr{st.Value}, Tok: token.DEFINE, Rhs: []ast.Expr{&ast.IndexExpr{X: m, Index: key}}}
		body = &ast.BlockStmt{List: append([]ast.Stmt{assign}, st.Body.List...)}
	}
	site := &ast.BasicLit{Kind: token.STRING, Value: strconv.Quote(rw.site(st.Pos()))}
	loop := &ast.RangeStmt{
		Key: ast.NewIdent("_"), Value: key, Tok: token.DEFINE,
		X:    schedCall("MapKeys", site, m),
		Body: body,
	}
	return &ast.BlockStmt{List: []ast.Stmt{
		&ast.AssignStmt{Lhs: []ast.Expr{m}, Tok: token.DEFINE, Rhs: []ast.Expr{st.X}},
		loop,
	}}
}

func exprString(e ast.Expr) string {
	switch x := e.(type) {
	case *ast.Ident:
		return x.Name
	case *ast.SelectorExpr:
		if s := exprString(x.X); s != "" {
			return s + "." + x.Sel.Name
		}
	}
	return ""
}

// mutatesMap reports whether body syntactically assigns to m[...] or calls delete(m, ...)/clear(m).
// Assigning to m[k] where k is the loop's own key updates an existing entry and is allowed.
func mutatesMap(body *ast.BlockStmt, m string, key string) bool {
	found := false
	ast.Inspect(body, func(n ast.Node) bool {
		switch x := n.(type) {
		case *ast.AssignStmt:
			for _, l := range x.Lhs {
				if ix, ok := l.(*ast.IndexExpr); ok && exprString(ix.X) == m {
					if kid, ok := ix.Index.(*ast.Ident); ok && key != "" && key != "_" && kid.Name == key {
						continue
					}
					found = true
				}
			}
		case *ast.CallExpr:
			if id, ok := x.Fun.(*ast.Ident); ok && (id.Name == "delete" || id.Name == "clear") && len(x.Args) > 0 && exprString(x.Args[0]) == m {
				found = true
			}
		}
		return true
	})
	return found
}
