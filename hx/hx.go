// Package hx holds helpers shared by the harnesses: a real AEAD key, callers,
// result classification and canonical state dumps of the real database.
package hx

import (
	"encoding/json"
	"errors"
	"fmt"
	"io"
	"net/netip"
	"os"
	"sort"

	"github.com/tailscale/setec/acl"
	"github.com/tailscale/setec/audit"
	"github.com/tailscale/setec/db"
	"github.com/tailscale/setec/types/api"
	"github.com/tink-crypto/tink-go/v2/aead"
	"github.com/tink-crypto/tink-go/v2/keyset"
	"github.com/tink-crypto/tink-go/v2/tink"

	"verif/model"
)

// NewKEK returns a fresh real AES256-GCM key-encryption key.
func NewKEK() tink.AEAD {
	h, err := keyset.NewHandle(aead.AES256GCMKeyTemplate())
	if err != nil {
		panic(err)
	}
	k, err := aead.New(h)
	if err != nil {
		panic(err)
	}
	return k
}

var AllActions = []acl.Action{acl.ActionGet, acl.ActionInfo, acl.ActionPut, acl.ActionActivate, acl.ActionDelete}

// Super is a caller allowed everything.
func Super() db.Caller {
	return db.Caller{
		Principal:   audit.Principal{User: "root@example.com", IP: netip.MustParseAddr("100.64.0.1"), Hostname: "root.example.ts.net"},
		Permissions: acl.Rules{{Action: AllActions, Secret: []acl.Secret{"*"}}},
	}
}

// Discard is an audit writer that drops everything.
func Discard() *audit.Writer { return audit.New(io.Discard) }

// Classify maps an error of the db package (or the client) to a model class.
func Classify(err error) model.Class {
	switch {
	case err == nil:
		return model.OK
	case errors.Is(err, db.ErrAccessDenied), errors.Is(err, api.ErrAccessDenied):
		return model.Denied
	case errors.Is(err, db.ErrNotFound), errors.Is(err, api.ErrNotFound):
		return model.NotFound
	case errors.Is(err, api.ErrValueNotChanged):
		return model.NotChanged
	}
	return model.OtherErr
}

// DumpKey is the canonical encoding of the real database's contents in the
// same shape as model.KV.Key.
func DumpKey(d *db.DB) string {
	m, _ := d.VerifDump()
	out := map[string]*model.Secret{}
	for n, s := range m {
		out[n] = &model.Secret{Versions: s.Versions, Active: s.Active, Latest: s.Latest}
	}
	b, _ := json.Marshal(out)
	return string(b)
}

// ToModel converts the real database's contents to a model (for seeding).
func ToModel(d *db.DB) *model.KV {
	m, _ := d.VerifDump()
	k := model.NewKV()
	for n, s := range m {
		ms := &model.Secret{Versions: map[uint32]string{}, Active: s.Active, Latest: s.Latest}
		for v, b := range s.Versions {
			ms.Versions[v] = b
		}
		k.S[n] = ms
	}
	return k
}

// Observe reads the whole observable state through the public API as the
// superuser: list, and for every name info, get, and get-version of every
// version number from 0 to latest+1.  It is compared with ObserveModel.
func Observe(d *db.DB, names []string, maxV uint32) string {
	su := Super()
	var out []string
	infos, err := d.List(su)
	if err != nil {
		return "list error: " + err.Error()
	}
	// Everything a call returns belongs to the caller: once rendered, the returned bytes and version
	// lists are overwritten, so a result that shares memory with the database shows in what is read next.
	scribble := func(sv *api.SecretValue) {
		for i := range sv.Value {
			sv.Value[i] ^= 0xff
		}
	}
	scribbleInfo := func(in *api.SecretInfo) {
		for i := range in.Versions {
			in.Versions[i] = 4000000000
		}
	}
	for _, in := range infos {
		out = append(out, fmt.Sprintf("L %s %v a=%d", in.Name, in.Versions, in.ActiveVersion))
		scribbleInfo(in)
	}
	for _, n := range names {
		in, err := d.Info(su, n)
		if err != nil {
			out = append(out, fmt.Sprintf("I %s %v", n, Classify(err)))
		} else {
			out = append(out, fmt.Sprintf("I %s %v a=%d", in.Name, in.Versions, in.ActiveVersion))
			scribbleInfo(in)
		}
		sv, err := d.Get(su, n)
		if err != nil {
			out = append(out, fmt.Sprintf("G %s %v", n, Classify(err)))
		} else {
			out = append(out, fmt.Sprintf("G %s %d %q", n, sv.Version, sv.Value))
			scribble(sv)
		}
		for v := uint32(0); v <= maxV; v++ {
			sv, err := d.GetVersion(su, n, api.SecretVersion(v))
			if err != nil {
				out = append(out, fmt.Sprintf("V %s %d %v", n, v, Classify(err)))
			} else {
				out = append(out, fmt.Sprintf("V %s %d %d %q", n, v, sv.Version, sv.Value))
				scribble(sv)
			}
		}
	}
	b, _ := json.Marshal(out)
	return string(b)
}

// ObserveModel is Observe for the model.
func ObserveModel(k *model.KV, names []string, maxV uint32) string {
	var out []string
	for _, in := range k.List() {
		out = append(out, fmt.Sprintf("L %s %v a=%d", in.Name, verList(in.Versions), in.Active))
	}
	for _, n := range names {
		in, c := k.Info(n)
		if c != model.OK {
			out = append(out, fmt.Sprintf("I %s %v", n, c))
		} else {
			out = append(out, fmt.Sprintf("I %s %v a=%d", in.Name, verList(in.Versions), in.Active))
		}
		v, b, c := k.Get(n)
		if c != model.OK {
			out = append(out, fmt.Sprintf("G %s %v", n, c))
		} else {
			out = append(out, fmt.Sprintf("G %s %d %q", n, v, b))
		}
		for v := uint32(0); v <= maxV; v++ {
			b, c := k.GetVersion(n, v)
			if c != model.OK {
				out = append(out, fmt.Sprintf("V %s %d %v", n, v, c))
			} else {
				out = append(out, fmt.Sprintf("V %s %d %d %q", n, v, v, b))
			}
		}
	}
	b, _ := json.Marshal(out)
	return string(b)
}

func verList(vs []uint32) []api.SecretVersion {
	out := make([]api.SecretVersion, len(vs))
	for i, v := range vs {
		out[i] = api.SecretVersion(v)
	}
	sort.Slice(out, func(i, j int) bool { return out[i] < out[j] })
	return out
}

// Scratch returns a fresh scratch directory (under VERIF_SCRATCH, which the
// runner places in /dev/shm and removes afterwards).
func Scratch(prefix string) string {
	base := os.Getenv("VERIF_SCRATCH")
	if base == "" {
		base = "/dev/shm"
	}
	d, err := os.MkdirTemp(base, prefix)
	if err != nil {
		panic(err)
	}
	return d
}
