package hx

import (
	"encoding/json"
	"fmt"
	"os"
	"strings"
	"testing"
	"time"

	"verif/report"
	"verif/sched"
)

// Scenario is one closed harness to explore.
type Scenario struct {
	Name string
	Make func() *sched.Harness
}

// SchedReplay is the replay payload of a scheduler violation.
type SchedReplay struct {
	Scenario string         `json:"scenario"`
	Choices  []sched.Choice `json:"choices"`
	Trace    []string       `json:"trace"`
}

// ExploreScenarios explores every scenario up to bound (-1 = all
// interleavings) and folds the result into one report section.  Scenarios are
// distributed over the worker shards round-robin unless shardTree is set, in
// which case every shard explores its part of every scenario's tree.
func ExploreScenarios(t *testing.T, env *report.Env, rep *report.Report, section string, scs []Scenario, bound int, shardTree bool, keyOf func(sc, msg string) string) *report.Section {
	sec := rep.Add(&report.Section{Name: section, Engine: "sched", Exhaustive: true, Outcomes: map[string]int64{}, Extra: map[string]int64{},
		Rule: "stateless DFS over scheduler/environment choice points of the real code inside a synctest bubble; a case is one complete execution; non-trivial = its choice list contains at least one non-default choice (preemption, reordering, environment deviation)"})
	if bound < 0 {
		sec.Bound = "unbounded (all interleavings of the gates)"
	} else {
		sec.Bound = fmt.Sprintf("deviation bound %d", bound)
	}
	t0 := time.Now()
	for i, sc := range scs {
		o := sched.Options{Bound: bound, Deadline: env.Deadline, DetEvery: 200}
		if shardTree {
			o.Shard, o.NShards = env.Shard, env.NShards
		} else if !env.Mine(int64(i)) {
			continue
		}
		if env.Expired() {
			sec.Exhaustive = false
			sec.Extra["scenarios_not_started"]++
			continue
		}
		h := sc.Make()
		h.Name = sc.Name
		st := sched.Explore(t, h, o)
		sec.Evaluations += st.Execs
		sec.Transitions += st.Steps
		sec.States += st.States
		sec.Extra["scenarios"]++
		sec.Extra["determinism_rechecks"] += st.DetChecked
		if int64(st.MaxDepth) > sec.Extra["max_choice_points"] {
			sec.Extra["max_choice_points"] = int64(st.MaxDepth)
		}
		if !st.Exhaustive {
			sec.Exhaustive = false
		}
		// non-trivial executions: all but the single all-default execution
		if st.Execs > 0 {
			sec.Nontrivial += st.Execs - 1
		}
		for k, v := range st.Outcomes {
			sec.Outcomes[k] += int64(v)
		}
		if st.EngineErrors > 0 {
			rep.EngineErrors = append(rep.EngineErrors, fmt.Sprintf("%s/%s: %d engine errors, e.g. %s", section, sc.Name, st.EngineErrors, st.EngineErrMsg))
		}
		if len(sec.Samples) < 3 && len(st.SampleTraces) > 0 {
			sec.Samples = append(sec.Samples, map[string]any{"scenario": sc.Name, "trace": st.SampleTraces[len(st.SampleTraces)-1]})
		}
		for _, f := range st.Found {
			key := section + "/" + sc.Name + ": " + f.Key
			if keyOf != nil {
				key = keyOf(sc.Name, f.Message)
			}
			rep.Violate(section, key, sc.Name+": "+f.Message+"\nschedule: "+strings.Join(f.Trace, " ; "), SchedReplay{Scenario: sc.Name, Choices: f.Choices, Trace: f.Trace})
		}
	}
	// keep the outcome table readable
	if len(sec.Outcomes) > 40 {
		n := int64(len(sec.Outcomes))
		sec.Outcomes = map[string]int64{"(distinct outcomes)": n}
	}
	sec.Extra["distinct_outcomes"] = int64(len(sec.Outcomes))
	sec.WallS = time.Since(t0).Seconds()
	return sec
}

// ReplaySched re-executes a recorded scheduler violation.
func ReplaySched(t *testing.T, env *report.Env, rep *report.Report, scs []Scenario) bool {
	if env.Replay == "" {
		return false
	}
	b, err := os.ReadFile(env.Replay)
	if err != nil {
		t.Fatalf("replay: %v", err)
	}
	var f struct {
		Section string      `json:"section"`
		Key     string      `json:"key"`
		Replay  SchedReplay `json:"replay"`
	}
	if err := json.Unmarshal(b, &f); err != nil {
		t.Fatalf("replay: %v", err)
	}
	for _, sc := range scs {
		if sc.Name != f.Replay.Scenario {
			continue
		}
		h := sc.Make()
		h.Name = sc.Name
		r := sched.Run(t, h, f.Replay.Choices)
		sec := rep.Add(&report.Section{Name: "replay", Engine: "sched", Evaluations: 1, Exhaustive: false})
		sec.Samples = append(sec.Samples, r.Trace)
		if r.EngineErr != nil {
			rep.EngineErrors = append(rep.EngineErrors, r.EngineErr.Error())
		}
		if r.Violation != nil {
			rep.Violate(f.Section, f.Key, sc.Name+": "+r.Violation.Error(), f.Replay)
		}
		return true
	}
	return false
}
