package hx

import (
	"path/filepath"

	"verif/sched"
	"verif/shim/vos"
)

// GateFS is a vos.Hook that turns selected file-system calls into scheduler
// gates and logs them.
type GateFS struct {
	Filter func(c *vos.Call) bool
	OnCall func(c *vos.Call)
}

func (g *GateFS) Before(c *vos.Call) {
	if g.Filter != nil && !g.Filter(c) {
		return
	}
	sched.Gate(&sched.Op{Kind: "fs", Label: "fs." + c.Op + "(" + filepath.Base(c.Path) + ")"})
	if g.OnCall != nil {
		g.OnCall(c)
	}
}

func (g *GateFS) After(c *vos.Call, err error) {}
