package hx

import (
	"path/filepath"
	"strings"

	"verif/sched"
	"verif/shim/vos"
)

// GateFS is a vos.Hook that turns selected file-system calls into scheduler
// gates and logs them.
type GateFS struct {
	Filter func(c *vos.Call) bool
	OnCall func(c *vos.Call)
	OnDone func(c *vos.Call, err error)
}

func (g *GateFS) Before(c *vos.Call) {
	if g.Filter != nil && !g.Filter(c) {
		return
	}
	base := filepath.Base(c.Path)
	if a := vos.Alias(base); a != base {
		base = a // a temporary made by CreateTemp: its pattern without the random part
	} else if i := strings.Index(base, ".tmp"); i >= 0 {
		base = base[:i+4] // temporary names carry random digits
	}
	sched.Gate(&sched.Op{Kind: "fs", Label: "fs." + c.Op + "(" + base + ")"})
	if g.OnCall != nil {
		g.OnCall(c)
	}
}

func (g *GateFS) After(c *vos.Call, err error) {
	if g.OnDone != nil && (g.Filter == nil || g.Filter(c)) {
		g.OnDone(c, err)
	}
}
