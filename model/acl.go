package model

// GlobMatch is the reference matcher of property C07: '*' stands for zero or
// more arbitrary bytes, everything else is literal, the match is anchored at
// both ends.  Plain O(n·m) dynamic programming over bytes (for valid UTF-8
// inputs matching by bytes and by characters coincide, because '*' may absorb
// any run and literals are whole characters).
func GlobMatch(pat, name string) bool {
	// dp[j] = pattern[:i] matches name[:j]
	dp := make([]bool, len(name)+1)
	dp[0] = true
	for i := 0; i < len(pat); i++ {
		nd := make([]bool, len(name)+1)
		if pat[i] == '*' {
			// matches any run: nd[j] = OR_{k<=j} dp[k]
			any := false
			for j := 0; j <= len(name); j++ {
				any = any || dp[j]
				nd[j] = any
			}
		} else {
			for j := 1; j <= len(name); j++ {
				nd[j] = dp[j-1] && name[j-1] == pat[i]
			}
		}
		dp = nd
	}
	return dp[len(name)]
}

// Rule mirrors one ACL rule.
type Rule struct {
	Actions  []string
	Patterns []string
}

// Allow is the reference decision: some single rule lists the action and has a matching pattern.
func Allow(rules []Rule, action, name string) bool {
	for _, r := range rules {
		a := false
		for _, x := range r.Actions {
			a = a || x == action
		}
		if !a {
			continue
		}
		for _, p := range r.Patterns {
			if GlobMatch(p, name) {
				return true
			}
		}
	}
	return false
}
