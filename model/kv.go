// Package model holds the boring reference models used as oracles.  They are
// written from the property statements, not from setec's code.
package model

import (
	"encoding/json"
	"sort"
	"strings"
)

// Class is the result class of an operation.
type Class int

const (
	OK Class = iota
	NotFound
	OtherErr
	Denied
	NotChanged
)

func (c Class) String() string {
	return [...]string{"ok", "not-found", "error", "denied", "not-changed"}[c]
}

// Secret is the model of one secret.
type Secret struct {
	Versions map[uint32]string `json:"v"`
	Active   uint32            `json:"a"`
	Latest   uint32            `json:"l"`
}

// KV is the sequential specification of the versioned store (property C02).
type KV struct {
	S map[string]*Secret
}

func NewKV() *KV { return &KV{S: map[string]*Secret{}} }

const ReservedPrefix = "_internal/"

// Clone deep-copies the model.
func (k *KV) Clone() *KV {
	c := NewKV()
	for n, s := range k.S {
		ns := &Secret{Versions: map[uint32]string{}, Active: s.Active, Latest: s.Latest}
		for v, b := range s.Versions {
			ns.Versions[v] = b
		}
		c.S[n] = ns
	}
	return c
}

// Key is a canonical encoding of the state (JSON sorts map keys).
func (k *KV) Key() string {
	b, _ := json.Marshal(k.S)
	return string(b)
}

func badName(name string) bool { return name == "" || strings.HasPrefix(name, ReservedPrefix) }

// Put returns the version assigned.  accept lists the acceptable result
// classes (more than one where the statement leaves the failure reason open).
func (k *KV) Put(name, value string) (uint32, []Class) {
	if badName(name) {
		return 0, []Class{OtherErr, NotFound}
	}
	s := k.S[name]
	if s == nil {
		k.S[name] = &Secret{Versions: map[uint32]string{1: value}, Active: 1, Latest: 1}
		return 1, []Class{OK}
	}
	if b, ok := s.Versions[s.Latest]; ok && b == value {
		return s.Latest, []Class{OK}
	}
	s.Latest++
	s.Versions[s.Latest] = value
	return s.Latest, []Class{OK}
}

func (k *KV) Activate(name string, v uint32) []Class {
	if badName(name) || v == 0 {
		return []Class{OtherErr, NotFound}
	}
	s := k.S[name]
	if s == nil {
		return []Class{NotFound}
	}
	if _, ok := s.Versions[v]; !ok {
		return []Class{NotFound}
	}
	s.Active = v
	return []Class{OK}
}

func (k *KV) DeleteVersion(name string, v uint32) []Class {
	if badName(name) || v == 0 {
		return []Class{OtherErr, NotFound}
	}
	s := k.S[name]
	if s == nil {
		return []Class{NotFound}
	}
	if v == s.Active {
		return []Class{OtherErr}
	}
	if _, ok := s.Versions[v]; !ok {
		return []Class{NotFound}
	}
	delete(s.Versions, v)
	return []Class{OK}
}

// Delete removes the whole secret; deleting an absent secret succeeds.
func (k *KV) Delete(name string) []Class {
	if strings.HasPrefix(name, ReservedPrefix) {
		return []Class{OtherErr, NotFound}
	}
	if name == "" {
		// nothing can be stored under the empty name: success (no-op) or an error are both "changes nothing"
		return []Class{OK, OtherErr, NotFound}
	}
	delete(k.S, name)
	return []Class{OK}
}

func (k *KV) Get(name string) (uint32, string, Class) {
	s := k.S[name]
	if s == nil {
		return 0, "", NotFound
	}
	return s.Active, s.Versions[s.Active], OK
}

func (k *KV) GetVersion(name string, v uint32) (string, Class) {
	s := k.S[name]
	if s == nil {
		return "", NotFound
	}
	b, ok := s.Versions[v]
	if !ok {
		return "", NotFound
	}
	return b, OK
}

// Info is the metadata of one secret.
type Info struct {
	Name     string
	Versions []uint32
	Active   uint32
}

func (k *KV) Info(name string) (Info, Class) {
	s := k.S[name]
	if s == nil {
		return Info{}, NotFound
	}
	in := Info{Name: name, Active: s.Active}
	for v := range s.Versions {
		in.Versions = append(in.Versions, v)
	}
	sort.Slice(in.Versions, func(i, j int) bool { return in.Versions[i] < in.Versions[j] })
	return in, OK
}

func (k *KV) List() []Info {
	var names []string
	for n := range k.S {
		names = append(names, n)
	}
	sort.Strings(names)
	var out []Info
	for _, n := range names {
		in, _ := k.Info(n)
		out = append(out, in)
	}
	return out
}

// In reports whether c is one of the acceptable classes.
func In(c Class, accept []Class) bool {
	for _, a := range accept {
		if a == c {
			return true
		}
	}
	return false
}
