package sched

import (
	"crypto/sha256"
	"encoding/binary"
	"encoding/json"
	"fmt"
	"os"
	"strings"
	"testing"
	"time"
)

// Options bound an exploration.
type Options struct {
	Bound    int       // maximum cumulative cost (preemptions + deviations); <0 = unbounded
	Deadline time.Time // zero = none; reaching it ends the run with Exhaustive=false
	MaxExecs int64     // 0 = none
	Shard    int       // this process explores the subtrees whose level-2 hash ≡ Shard mod NShards
	NShards  int
	// Determinism: every DetEvery-th execution is run twice and compared.
	DetEvery int64
	// StopAtFirst stops at the first violation.
	StopAtFirst bool
}

// Found is a violation with its replay information.
type Found struct {
	Harness string   `json:"harness"`
	Choices []Choice `json:"choices"`
	Message string   `json:"message"`
	Trace   []string `json:"trace"`
	Key     string   `json:"key"` // canonical signature (harness-defined prefix of Message up to first newline)
}

// Stats is the coverage of an exploration.
type Stats struct {
	Harness      string         `json:"harness"`
	Bound        int            `json:"bound"`
	Execs        int64          `json:"executions"`
	Steps        int64          `json:"transitions"`
	States       int64          `json:"states"` // distinct (trace-prefix) scheduler states = choice points visited
	Outcomes     map[string]int `json:"outcomes"`
	Exhaustive   bool           `json:"exhaustive"`
	EngineErrors int            `json:"engine_errors"`
	EngineErrMsg string         `json:"engine_error_sample,omitempty"`
	DetChecked   int64          `json:"determinism_rechecks"`
	Found        []Found        `json:"found,omitempty"`
	SampleTraces [][]string     `json:"sample_traces,omitempty"`
	MaxDepth     int            `json:"max_choice_points"`
	WallS        float64        `json:"wall_s"`
}

type frame struct {
	prefix []Choice
	cost   int
	level  int
	h1, h2 uint64 // hashes of first and second branching decisions
}

func branchHash(i, alt int, prev uint64) uint64 {
	var b [24]byte
	binary.LittleEndian.PutUint64(b[0:], uint64(i))
	binary.LittleEndian.PutUint64(b[8:], uint64(alt))
	binary.LittleEndian.PutUint64(b[16:], prev)
	s := sha256.Sum256(b[:])
	return binary.LittleEndian.Uint64(s[:8])
}

// Explore enumerates every execution of h whose cumulative cost is ≤ Bound.
func Explore(t *testing.T, h *Harness, o Options) *Stats {
	st := &Stats{Harness: h.Name, Bound: o.Bound, Outcomes: map[string]int{}, Exhaustive: true}
	t0 := time.Now()
	if o.NShards <= 0 {
		o.NShards = 1
	}
	stack := []frame{{}}
	seenFound := map[string]bool{}
	for len(stack) > 0 {
		f := stack[len(stack)-1]
		stack = stack[:len(stack)-1]
		if !o.Deadline.IsZero() && time.Now().After(o.Deadline) {
			st.Exhaustive = false
			break
		}
		if o.MaxExecs > 0 && st.Execs >= o.MaxExecs {
			st.Exhaustive = false
			break
		}
		// Levels 0 and 1 are executed by every shard (to discover the level-2
		// subtrees) but counted only by shard 0.
		owned := true
		if f.level >= 2 {
			if int(f.h2%uint64(o.NShards)) != o.Shard {
				continue
			}
		} else if o.Shard != 0 {
			owned = false
		}
		r := Run(t, h, f.prefix)
		if r.EngineErr != nil {
			st.EngineErrors++
			if st.EngineErrMsg == "" {
				st.EngineErrMsg = r.EngineErr.Error() + " prefix=" + fmtChoices(f.prefix)
			}
			st.Exhaustive = false
			continue
		}
		if owned {
			st.Execs++
			st.Steps += int64(r.Steps)
			st.States += int64(len(r.Points) - len(f.prefix) + 1)
			if len(r.Points) > st.MaxDepth {
				st.MaxDepth = len(r.Points)
			}
			oc := r.Outcome
			if r.Stuck != "" {
				oc += " [stuck:" + r.Stuck + "]"
			}
			st.Outcomes[oc]++
			if len(st.SampleTraces) < 3 && (st.Execs == 1 || st.Execs%1000 == 7) {
				st.SampleTraces = append(st.SampleTraces, r.Trace)
			}
			if o.DetEvery > 0 && st.Execs%o.DetEvery == 1 {
				r2 := Run(t, h, r.Choices)
				st.DetChecked++
				if r2.EngineErr != nil || strings.Join(r2.Trace, "\n") != strings.Join(r.Trace, "\n") || r2.Outcome != r.Outcome {
					st.EngineErrors++
					st.Exhaustive = false
					if st.EngineErrMsg == "" {
						st.EngineErrMsg = fmt.Sprintf("nondeterministic replay of %s: %v\nA: %s | %s\nB: %s | %s", fmtChoices(r.Choices), r2.EngineErr, strings.Join(r.Trace, ";"), r.Outcome, strings.Join(r2.Trace, ";"), r2.Outcome)
					}
				}
			}
			if r.Violation != nil {
				// re-execute from the full choice list: must fail identically
				msg := r.Violation.Error()
				stable := true
				for k := 0; k < 4; k++ {
					r2 := Run(t, h, r.Choices)
					if r2.Violation == nil || firstLine(r2.Violation.Error()) != firstLine(msg) {
						stable = false
						break
					}
				}
				if !stable {
					st.EngineErrors++
					st.Exhaustive = false
					if st.EngineErrMsg == "" {
						st.EngineErrMsg = "unstable violation (not reported): " + firstLine(msg)
					}
				} else {
					key := firstLine(msg)
					if !seenFound[key] {
						seenFound[key] = true
						st.Found = append(st.Found, Found{Harness: h.Name, Choices: r.Choices, Message: msg, Trace: r.Trace, Key: key})
					}
					if o.StopAtFirst {
						st.Exhaustive = false
						break
					}
				}
			}
		}
		// children: alternatives at every point after the prefix
		cost := f.cost
		// cost of the replayed prefix is f.cost; points beyond it took choice 0
		// (cost 0).  Push in reverse so that the DFS visits shallow points first.
		var kids []frame
		for i := len(f.prefix); i < len(r.Points); i++ {
			p := r.Points[i]
			for alt := 1; alt < len(p.Alts); alt++ {
				c := cost + p.Costs[alt]
				if o.Bound >= 0 && c > o.Bound {
					continue
				}
				np := make([]Choice, i+1)
				copy(np, r.Choices[:i])
				np[i] = Choice{Idx: alt, Desc: p.Alts[alt]}
				k := frame{prefix: np, cost: c, level: f.level + 1, h1: f.h1, h2: f.h2}
				if k.level == 1 {
					k.h1 = branchHash(i, alt, 0)
					k.h2 = k.h1
				} else if k.level == 2 {
					k.h2 = branchHash(i, alt, f.h1)
				}
				kids = append(kids, k)
			}
		}
		for i := len(kids) - 1; i >= 0; i-- {
			stack = append(stack, kids[i])
		}
	}
	st.WallS = time.Since(t0).Seconds()
	return st
}

func firstLine(s string) string {
	if i := strings.IndexByte(s, '\n'); i >= 0 {
		return s[:i]
	}
	return s
}

func fmtChoices(cs []Choice) string {
	var sb strings.Builder
	for i, c := range cs {
		if i > 0 {
			sb.WriteByte(' ')
		}
		fmt.Fprintf(&sb, "%d", c.Idx)
	}
	return sb.String()
}

// WriteJSON writes v to path.
func WriteJSON(path string, v any) error {
	b, err := json.MarshalIndent(v, "", " ")
	if err != nil {
		return err
	}
	return os.WriteFile(path, b, 0o644)
}
