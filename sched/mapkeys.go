package sched

import (
	"cmp"
	"slices"
	"sync/atomic"
)

// MapKeys returns the keys of m in an order owned by the explorer: sorted by
// default; any other permutation (all n! for n ≤ 4, else only the reverse) is
// a deviation.  Rewritten `for k, v := range m` loops iterate over it.
func MapKeys[K cmp.Ordered, V any](site string, m map[K]V) []K {
	keys := make([]K, 0, len(m))
	for k := range m {
		keys = append(keys, k)
	}
	slices.Sort(keys)
	x := cur.Load()
	if x == nil || len(keys) < 2 || !x.MapOrder {
		return keys
	}
	n := len(keys)
	if n > 4 {
		if x.Choose("maporder@"+site, 2) == 1 {
			slices.Reverse(keys)
		}
		return keys
	}
	f := 1
	for i := 2; i <= n; i++ {
		f *= i
	}
	c := x.Choose("maporder@"+site, f)
	// c-th permutation in lexicographic order (factorial number system)
	rest := slices.Clone(keys)
	out := keys[:0]
	for i := n; i >= 1; i-- {
		f /= i
		j := c / f
		c %= f
		out = append(out, rest[j])
		rest = append(rest[:j], rest[j+1:]...)
	}
	return out
}

// Seq returns a per-execution deterministic counter (used for audit ids).
func Seq() (uint64, bool) {
	x := cur.Load()
	if x == nil {
		return 0, false
	}
	return atomic.AddUint64(&x.seq, 1), true
}
