// Package sched is a hand-written controlled scheduler for exhaustive,
// deviation-bounded exploration of real Go code.
//
// Threads are real goroutines running inside a testing/synctest bubble.  They
// can only be stopped at gates (Gate): hooked mutex acquires, hooked file
// system calls, and harness seams.  The controller (the goroutine that called
// Run) waits for quiescence with synctest.Wait, computes the set of enabled
// choices, and picks one: by replaying a recorded prefix and then always
// taking choice 0.  Explore enumerates all choice sequences whose cumulative
// cost stays within a bound (see explore.go).
package sched

import (
	"fmt"
	"os"
	"runtime"
	"sort"
	"strings"
	"sync"
	"sync/atomic"
	"testing"
	"testing/synctest"
	"time"
)

// Op describes the operation a thread is about to perform at a gate.
type Op struct {
	Kind  string // "start", "lock", "rlock", "seam", "fs", "choose"
	Label string // deterministic descriptor (no addresses)
	Mu    *MuState
	N     int // for "choose": number of alternatives
}

// MuState is the controller's model of one hooked mutex.
type MuState struct {
	ID      int // assigned by the controller in canonical order; 0 = not yet
	Owner   *Thread
	Readers int
	Name    string
}

// Thread is one goroutine known to the controller.
type Thread struct {
	Name    string
	goid    int64
	wake    chan int
	pending *Op
	parked  bool
	done    bool
	exiting bool
	counted bool // harness thread: execution ends when all counted threads are done
	nchild  map[string]int
	choice  int
	Held    int // number of model mutexes currently held
	gates   int // gates passed in total
}

// Choice is one decision: the index taken among the alternatives and the
// descriptor of that alternative (checked on replay).
type Choice struct {
	Idx  int    `json:"i"`
	Desc string `json:"d"`
}

// Point is one recorded choice point of an execution.
type Point struct {
	Alts   []string
	Costs  []int
	Chosen int
}

// Event is an environment event the controller can fire at a quiescent point.
type Event struct {
	Name    string
	Enabled func() bool
	Do      func()
	Repeat  int // how many more times it may fire
}

// Exec is one controlled execution.
type Exec struct {
	T *testing.T

	mu       sync.Mutex
	threads  map[int64]*Thread
	byName   map[string]*Thread
	arrivals chan struct{}
	ctlGoid  int64

	prefix []Choice
	Points []Point
	Trace  []string // one line per step, for replay files and evidence

	events  []*Event
	lastRun *Thread
	nextMu  int
	anon    int

	free      atomic.Bool // teardown: gates pass through
	freeGates atomic.Int64
	aborting  atomic.Bool // abandon: gates Goexit

	start   time.Time
	Horizon time.Duration
	UseTime bool // offer "T" (advance virtual time) as a choice
	// EagerTime also offers T while threads are runnable; by default virtual time
	// only advances when every thread is blocked (no runnable thread is starved).
	EagerTime bool
	FSGates   bool // harness flag consulted by fs hooks
	MapOrder  bool // explore map iteration orders (default: sorted order only)
	seq       uint64
	// EventCostFree makes firing an event cost 0 when no thread is enabled.
	MaxSteps int

	Steps            int
	StepsSinceTime   int
	sameThreadStreak int
	MaxStreak        int // longest run of consecutive steps by one thread without time advancing

	EngineErr error
	Violation error
	Outcome   string
	Stuck     string // non-empty if the execution ended with unfinished threads

	// Invariant, if set, is evaluated by the controller at every quiescent point.
	Invariant func() error
	// User data for harnesses.
	Data any

	chooseCtl  int
	deadlocked bool
	// TeardownDeadlock is set when, after the controlled part, a goroutine could not acquire a mutex at all.
	TeardownDeadlock string
	// Unfinished lists the threads that were still running when the teardown gave up waiting for them.
	Unfinished []string
}

var cur atomic.Pointer[Exec]

// Current returns the active execution, or nil when running free.
func Current() *Exec { return cur.Load() }

func goid() int64 {
	var buf [64]byte
	n := runtime.Stack(buf[:], false)
	// "goroutine 123 ["
	s := buf[10:n]
	var id int64
	for _, c := range s {
		if c < '0' || c > '9' {
			break
		}
		id = id*10 + int64(c-'0')
	}
	return id
}

// Now returns the virtual time elapsed since the start of the execution.
func (x *Exec) Now() time.Duration { return time.Since(x.start) }

func (x *Exec) logf(format string, args ...any) {
	x.Trace = append(x.Trace, fmt.Sprintf(format, args...))
}

// Note appends a harness observation to the trace (controller or thread).
func (x *Exec) Note(format string, args ...any) {
	x.mu.Lock()
	x.Trace = append(x.Trace, "  # "+fmt.Sprintf(format, args...))
	x.mu.Unlock()
}

func (x *Exec) post() {
	select {
	case x.arrivals <- struct{}{}:
	default:
	}
}

// Go starts a named harness thread.  It must be called from the controller
// goroutine (Setup or an event) or from a thread.
func (x *Exec) Go(name string, fn func()) *Thread {
	return x.spawn(name, fn, true)
}

// GoBackground starts a named thread that is not waited for.
func (x *Exec) GoBackground(name string, fn func()) *Thread {
	return x.spawn(name, fn, false)
}

func (x *Exec) spawn(name string, fn func(), counted bool) *Thread {
	th := &Thread{Name: name, wake: make(chan int, 1), counted: counted, nchild: map[string]int{}}
	x.mu.Lock()
	if _, dup := x.byName[name]; dup {
		x.mu.Unlock()
		panic("sched: duplicate thread name " + name)
	}
	x.byName[name] = th
	x.mu.Unlock()
	go func() {
		th.goid = goid()
		x.mu.Lock()
		x.threads[th.goid] = th
		x.mu.Unlock()
		defer func() {
			// a panic in a goroutine of the code under test would take the process down: it is a
			// violation of whatever is being checked, not a reason to lose the whole exploration
			if r := recover(); r != nil && !x.aborting.Load() {
				x.mu.Lock()
				if x.Violation == nil {
					x.Violation = fmt.Errorf("panic in goroutine %s: %v\n%s", th.Name, r, stack())
				}
				x.mu.Unlock()
			}
			x.mu.Lock()
			th.done = true
			th.parked = false
			x.mu.Unlock()
			x.post()
		}()
		x.gate(th, &Op{Kind: "start", Label: "start"})
		fn()
	}()
	return th
}

// GoSite is what rewritten `go f()` statements call.
func GoSite(site string, fn func()) {
	x := cur.Load()
	if x == nil || x.free.Load() || x.aborting.Load() {
		go fn()
		return
	}
	g := goid()
	x.mu.Lock()
	parent := x.threads[g]
	pname := "ctl"
	var n int
	if parent != nil {
		pname = parent.Name
		parent.nchild[site]++
		n = parent.nchild[site]
	} else {
		x.anon++
		n = x.anon
	}
	x.mu.Unlock()
	x.spawn(fmt.Sprintf("%s>%s#%d", pname, site, n), fn, false)
}

// Gate parks the calling goroutine until the controller lets it perform op.
// Outside a controlled execution it returns immediately.
func Gate(op *Op) {
	x := cur.Load()
	if x == nil {
		return
	}
	x.gateAny(op)
}

// freeGate is a gate during teardown: open.  A thread that keeps passing gates
// forever (a spin loop in the code under test) is unwound so the bubble can end.
func (x *Exec) freeGate() {
	if n := x.freeGates.Add(1); n > 20000 || x.aborting.Load() {
		g := goid()
		x.mu.Lock()
		th := x.threads[g]
		x.mu.Unlock()
		if th != nil && !th.exiting && g != x.ctlGoid {
			th.exiting = true
			x.aborting.Store(true)
			runtime.Goexit()
		}
	}
}

func (x *Exec) gateAny(op *Op) {
	if x.free.Load() {
		x.freeGate()
		return
	}
	g := goid()
	if g == x.ctlGoid {
		return
	}
	x.mu.Lock()
	th := x.threads[g]
	if th == nil {
		// A goroutine not started through Go/GoSite: name it by its first operation.
		x.anon++
		th = &Thread{Name: fmt.Sprintf("anon%d:%s", x.anon, op.Label), goid: g, wake: make(chan int, 1), nchild: map[string]int{}}
		x.threads[g] = th
		x.byName[th.Name] = th
	}
	x.mu.Unlock()
	x.gate(th, op)
}

func (x *Exec) gate(th *Thread, op *Op) {
	if x.free.Load() {
		return
	}
	if x.aborting.Load() {
		if th.exiting {
			return
		}
		th.exiting = true
		runtime.Goexit()
	}
	x.mu.Lock()
	th.pending = op
	th.parked = true
	x.mu.Unlock()
	x.post()
	v := <-th.wake
	if v != 0 {
		th.exiting = true
		runtime.Goexit()
	}
}

// Seam is a named scheduling point in harness code.
func (x *Exec) Seam(label string) {
	if x == nil {
		return
	}
	x.gateAny(&Op{Kind: "seam", Label: label})
}

// Woke is what rewritten select statements call at the start of the clause that was chosen.
func Woke(site string) {
	x := cur.Load()
	if x == nil {
		return
	}
	x.gateAny(&Op{Kind: "seam", Label: "woke(" + site + ")"})
}

// Seam is the package-level form, usable when running free.
func Seam(label string) { Current().Seam(label) }

// Choose asks the explorer for a value in [0,n).  Alternative 0 is the
// default; any other costs one deviation.
func Choose(label string, n int) int {
	x := cur.Load()
	if x == nil || n <= 1 {
		return 0
	}
	return x.Choose(label, n)
}

func (x *Exec) Choose(label string, n int) int {
	if x == nil || n <= 1 || x.free.Load() || x.aborting.Load() {
		return 0
	}
	g := goid()
	if g == x.ctlGoid {
		return x.decideChoose(label, n)
	}
	x.mu.Lock()
	th := x.threads[g]
	x.mu.Unlock()
	if th == nil {
		// unknown goroutine: register through a gate first
		x.gateAny(&Op{Kind: "seam", Label: "pre-choose:" + label})
		x.mu.Lock()
		th = x.threads[g]
		x.mu.Unlock()
	}
	x.gate(th, &Op{Kind: "choose", Label: label, N: n})
	return th.choice
}

func (x *Exec) decideChoose(label string, n int) int {
	alts := make([]string, n)
	costs := make([]int, n)
	for i := range alts {
		alts[i] = fmt.Sprintf("%s=%d", label, i)
		if i > 0 {
			costs[i] = 1
		}
	}
	idx := x.decide(alts, costs)
	x.logf("choose %s", alts[idx])
	return idx
}

// AddEvent registers an environment event.
func (x *Exec) AddEvent(name string, enabled func() bool, do func()) *Event {
	ev := &Event{Name: name, Enabled: enabled, Do: do, Repeat: 1}
	x.events = append(x.events, ev)
	return ev
}

type engineError struct{ msg string }

func (e engineError) Error() string { return e.msg }

func (x *Exec) decide(alts []string, costs []int) int {
	i := len(x.Points)
	idx := 0
	if i < len(x.prefix) {
		c := x.prefix[i]
		if c.Idx >= len(alts) || (c.Desc != "" && alts[c.Idx] != c.Desc) {
			panic(engineError{fmt.Sprintf("replay divergence at point %d: want %d:%q, alternatives %q", i, c.Idx, c.Desc, alts)})
		}
		idx = c.Idx
	}
	x.Points = append(x.Points, Point{Alts: alts, Costs: costs, Chosen: idx})
	return idx
}

// Choices returns the full choice list of this execution (for replay files).
func (x *Exec) Choices() []Choice {
	out := make([]Choice, len(x.Points))
	for i, p := range x.Points {
		out[i] = Choice{Idx: p.Chosen, Desc: p.Alts[p.Chosen]}
	}
	return out
}

func (x *Exec) opEnabled(op *Op) bool {
	switch op.Kind {
	case "lock":
		return op.Mu.Owner == nil && op.Mu.Readers == 0
	case "rlock":
		return op.Mu.Owner == nil
	}
	return true
}

func (x *Exec) muName(m *MuState) string {
	if m.ID == 0 {
		x.nextMu++
		m.ID = x.nextMu
	}
	if m.Name != "" {
		return m.Name
	}
	return fmt.Sprintf("m%d", m.ID)
}

func (x *Exec) desc(th *Thread) string {
	op := th.pending
	switch op.Kind {
	case "lock", "rlock":
		return th.Name + ":" + op.Kind + "(" + x.muName(op.Mu) + ")"
	}
	return th.Name + ":" + op.Label
}

// ThreadsParked returns, for invariants, the parked threads and their ops.
func (x *Exec) Parked() map[string]*Op {
	out := map[string]*Op{}
	for _, th := range x.byName {
		if th.parked && !th.done {
			out[th.Name] = th.pending
		}
	}
	return out
}

// Thread returns the named thread or nil.
func (x *Exec) Thread(name string) *Thread { return x.byName[name] }

// Done reports whether the named thread has finished.
func (x *Exec) Done(name string) bool {
	for _, u := range x.Unfinished {
		if u == name {
			return false
		}
	}
	th := x.byName[name]
	return th != nil && th.done
}

// LiveDescendants reports whether a goroutine started (directly or indirectly) by the named thread
// may still be running. During teardown (free mode) spawned goroutines are not tracked, so the
// answer is then always true.
func (x *Exec) LiveDescendants(name string) bool {
	sub := name + ">"
	if x.free.Load() || x.aborting.Load() {
		return true
	}
	x.mu.Lock()
	defer x.mu.Unlock()
	for n, th := range x.byName {
		if !th.done && strings.HasPrefix(n, sub) {
			return true
		}
	}
	return false
}

func (x *Exec) sortedThreads() []*Thread {
	ths := make([]*Thread, 0, len(x.byName))
	for _, th := range x.byName {
		ths = append(ths, th)
	}
	sort.Slice(ths, func(i, j int) bool { return ths[i].Name < ths[j].Name })
	return ths
}

func (x *Exec) release(th *Thread, v int) {
	th.parked = false
	th.pending = nil
	th.gates++
	th.wake <- v
}

// loop is the controller.
func (x *Exec) loop() {
	for {
		synctest.Wait()
		x.mu.Lock()
		ths := x.sortedThreads()
		// 1. resolve pending data choices deterministically, one at a time.
		var chooser *Thread
		for _, th := range ths {
			if th.parked && th.pending.Kind == "choose" {
				chooser = th
				break
			}
		}
		if chooser != nil {
			op := chooser.pending
			x.mu.Unlock()
			chooser.choice = x.decideChoose(chooser.Name+":"+op.Label, op.N)
			x.mu.Lock()
			x.release(chooser, 0)
			x.mu.Unlock()
			continue
		}
		// assign mutex ids in canonical order
		for _, th := range ths {
			if th.parked && th.pending.Mu != nil {
				x.muName(th.pending.Mu)
			}
		}
		allDone := true
		for _, th := range ths {
			if th.counted && !th.done {
				allDone = false
			}
		}
		x.mu.Unlock()

		if x.Invariant != nil {
			if err := x.Invariant(); err != nil {
				x.Violation = err
				return
			}
		}
		if allDone {
			return
		}
		if x.MaxSteps > 0 && x.Steps >= x.MaxSteps {
			x.Stuck = "stepcap"
			return
		}

		// 2. enabled choices
		x.mu.Lock()
		type alt struct {
			th   *Thread
			ev   *Event
			time bool
		}
		var alts []alt
		var descs []string
		var costs []int
		lastEnabled := x.lastRun != nil && x.lastRun.parked && !x.lastRun.done && x.opEnabled(x.lastRun.pending)
		if lastEnabled {
			alts = append(alts, alt{th: x.lastRun})
			descs = append(descs, x.desc(x.lastRun))
			costs = append(costs, 0)
		}
		nthreads := 0
		for _, th := range ths {
			if th == x.lastRun && lastEnabled {
				nthreads++
				continue
			}
			if th.parked && !th.done && x.opEnabled(th.pending) {
				alts = append(alts, alt{th: th})
				descs = append(descs, x.desc(th))
				if lastEnabled {
					costs = append(costs, 1)
				} else {
					costs = append(costs, 0)
				}
				nthreads++
			}
		}
		x.mu.Unlock()
		for _, ev := range x.events {
			if ev.Repeat > 0 && (ev.Enabled == nil || ev.Enabled()) {
				alts = append(alts, alt{ev: ev})
				descs = append(descs, "E:"+ev.Name)
				if len(alts) == 1 {
					costs = append(costs, 0)
				} else {
					costs = append(costs, 1)
				}
			}
		}
		if x.UseTime && x.Now() < x.Horizon && (nthreads == 0 || x.EagerTime) {
			alts = append(alts, alt{time: true})
			descs = append(descs, "T")
			if len(alts) == 1 {
				costs = append(costs, 0)
			} else {
				costs = append(costs, 1)
			}
		}
		if len(alts) == 0 {
			var sb []string
			x.mu.Lock()
			for _, th := range ths {
				if !th.done {
					st := "blocked"
					if th.parked {
						st = "parked@" + x.desc(th)
					}
					sb = append(sb, th.Name+"="+st)
				}
			}
			x.mu.Unlock()
			x.Stuck = "no enabled choice: " + strings.Join(sb, ",")
			x.mu.Lock()
			dl := x.findDeadlock(ths)
			x.mu.Unlock()
			if dl != "" {
				// a lock that can never be granted: the calls waiting for it never return
				x.deadlocked = true
				if x.Violation == nil {
					x.Violation = fmt.Errorf("deadlock: %s", dl)
				}
			}
			return
		}
		costs[0] = 0
		idx := x.decide(descs, costs)
		a := alts[idx]
		x.Steps++
		switch {
		case a.th != nil:
			x.mu.Lock()
			th := a.th
			if th == x.lastRun {
				x.sameThreadStreak++
			} else {
				x.sameThreadStreak = 1
			}
			if x.sameThreadStreak > x.MaxStreak {
				x.MaxStreak = x.sameThreadStreak
			}
			x.lastRun = th
			x.StepsSinceTime++
			x.logf("%s @%v", descs[idx], x.Now())
			if op := th.pending; op.Mu != nil {
				if op.Kind == "lock" {
					op.Mu.Owner = th
				} else {
					op.Mu.Readers++
				}
				th.Held++
			}
			x.release(th, 0)
			x.mu.Unlock()
		case a.ev != nil:
			a.ev.Repeat--
			x.logf("E:%s @%v", a.ev.Name, x.Now())
			a.ev.Do()
		case a.time:
			// Drain stale notifications, then block: with every goroutine of the
			// bubble durably blocked the virtual clock jumps to the next timer.
			for len(x.arrivals) > 0 {
				<-x.arrivals
			}
			before := x.Now()
			<-x.arrivals
			x.StepsSinceTime = 0
			x.sameThreadStreak = 0
			x.logf("T %v -> %v", before, x.Now())
		}
	}
}

// findDeadlock looks, among the threads parked at a mutex acquire, for one whose wait can never end:
// the mutex is held by the thread itself, by a thread that has exited, or by a thread that is in turn
// waiting (through any number of steps) for a mutex the first one holds. x.mu is held.
func (x *Exec) findDeadlock(ths []*Thread) string {
	waitsFor := func(t *Thread) *Thread {
		if t == nil || t.done || !t.parked || t.pending == nil || t.pending.Mu == nil || x.opEnabled(t.pending) {
			return nil
		}
		return t.pending.Mu.Owner // nil for a mutex only held by readers
	}
	for _, t := range ths {
		o := waitsFor(t)
		if o == nil || o == ctlThread {
			continue
		}
		chain := []string{t.Name}
		seen := map[*Thread]bool{t: true}
		for o != nil && o != ctlThread {
			if o == t || seen[o] {
				return fmt.Sprintf("%s waits for %s held by %s (cycle: %s -> %s)", t.Name, x.muName(t.pending.Mu), t.pending.Mu.Owner.Name, strings.Join(chain, " -> "), o.Name)
			}
			if o.done {
				return fmt.Sprintf("%s waits for a mutex held by %s, which has exited without releasing it (%s -> %s)", t.Name, o.Name, strings.Join(chain, " -> "), o.Name)
			}
			seen[o] = true
			chain = append(chain, o.Name)
			o = waitsFor(o)
		}
	}
	return ""
}

// Harness describes a closed system to explore.
type Harness struct {
	Name string
	// Setup runs on the controller goroutine inside the bubble; gates pass
	// through there.  It creates the objects under test and starts threads.
	Setup func(x *Exec)
	// Teardown runs after the controlled part, with all gates open.  It must
	// make every goroutine of the bubble exit (cancel contexts, Close stores).
	Teardown func(x *Exec)
	// Final is the end-of-execution oracle; it runs after Teardown, outside the
	// bubble's controlled phase.
	Final func(x *Exec) error
}

// Result is what one execution produced.
type Result struct {
	Choices   []Choice
	Points    []Point
	Trace     []string
	Violation error
	EngineErr error
	Stuck     string
	Outcome   string
	Steps     int
}

// Run performs one controlled execution of h following prefix.
func Run(t *testing.T, h *Harness, prefix []Choice) (res *Result) {
	res = &Result{}
	var x *Exec
	fill := func() {
		if x == nil {
			return
		}
		res.Choices = x.Choices()
		res.Points = x.Points
		res.Trace = x.Trace
		res.Violation = x.Violation
		res.EngineErr = x.EngineErr
		res.Stuck = x.Stuck
		res.Outcome = x.Outcome
		res.Steps = x.Steps
	}
	defer func() {
		if r := recover(); r != nil {
			fill()
			if x != nil && (x.deadlocked || len(x.Unfinished) > 0) && res.Violation != nil {
				// the bubble of a deadlocked execution, or of one whose threads never finish, ends with
				// goroutines still blocked: expected, and the violation has been recorded
				cur.Store(nil)
				return
			}
			res.EngineErr = fmt.Errorf("engine: %v", r)
			cur.Store(nil)
			if os.Getenv("VERIF_DEBUG") != "" {
				buf := make([]byte, 1<<20)
				n := runtime.Stack(buf, true)
				fmt.Fprintf(os.Stderr, "ENGINE ERROR %v\n%s\n", r, buf[:n])
			}
		}
	}()
	synctest.Test(t, func(t *testing.T) {
		x = &Exec{
			T:        t,
			threads:  map[int64]*Thread{},
			byName:   map[string]*Thread{},
			arrivals: make(chan struct{}, 1),
			prefix:   prefix,
			start:    time.Now(),
			Horizon:  time.Hour,
			MaxSteps: 5000,
			ctlGoid:  goid(),
		}
		cur.Store(x)
		var sentinelStop chan struct{}
		func() {
			defer func() {
				if r := recover(); r != nil {
					if ee, ok := r.(engineError); ok {
						x.EngineErr = ee
					} else {
						x.Violation = fmt.Errorf("panic on controller: %v\n%s", r, stack())
					}
				}
			}()
			h.Setup(x)
			if x.UseTime {
				sentinelStop = make(chan struct{})
				go func() {
					select {
					case <-time.After(x.Horizon - x.Now()):
						x.post()
					case <-sentinelStop:
					}
				}()
			}
			x.loop()
		}()
		// Teardown: open all gates; stuck executions are abandoned instead.
		if sentinelStop != nil {
			close(sentinelStop)
		}
		// From here on the model state is meaningless; the real mutexes (kept in
		// step with the model all along) take over and every thread runs free.
		if x.deadlocked {
			// the threads of a deadlocked execution can never finish: they are unwound (Goexit at their
			// gates, deferred unlocks run) and whatever stays blocked is abandoned with the bubble
			x.aborting.Store(true)
		} else {
			x.free.Store(true)
		}
		x.mu.Lock()
		for _, th := range x.sortedThreads() {
			if th.parked && !th.done {
				if x.deadlocked {
					x.release(th, 1)
				} else {
					x.release(th, 0)
				}
			}
		}
		x.mu.Unlock()
		func() {
			defer func() {
				if r := recover(); r != nil && x.Violation == nil {
					x.Violation = fmt.Errorf("panic in teardown: %v\n%s", r, stack())
				}
			}()
			if h.Teardown != nil && !x.deadlocked {
				h.Teardown(x)
			}
		}()
		// Wait (in virtual time) for everything to finish: time stops once the
		// bubble's main goroutine exits, so sleeping threads must be waited for here.
		for i := 0; i < 4; i++ {
			synctest.Wait()
			x.mu.Lock()
			alldone := true
			for _, th := range x.byName {
				if !th.done {
					alldone = false
				}
			}
			x.mu.Unlock()
			if alldone {
				break
			}
			time.Sleep(x.Horizon + time.Hour)
		}
		synctest.Wait()
		// Threads that are still not done after hours of virtual time with every gate open will never be:
		// they are remembered (Done reports false for them), then unwound at their next gate so that the
		// end-of-execution oracle can still run and judge them.
		x.mu.Lock()
		for _, th := range x.sortedThreads() {
			if !th.done {
				x.Unfinished = append(x.Unfinished, th.Name)
			}
		}
		x.mu.Unlock()
		if len(x.Unfinished) > 0 && !x.deadlocked {
			x.aborting.Store(true)
			time.Sleep(x.Horizon + time.Hour)
			synctest.Wait()
		}
		if x.TeardownDeadlock != "" && x.Violation == nil {
			x.Violation = fmt.Errorf("deadlock: after the controlled part of the execution a goroutine waited for a mutex that was never released: %s", x.TeardownDeadlock)
		}
		if h.Final != nil && x.Violation == nil && x.EngineErr == nil {
			func() {
				defer func() {
					if r := recover(); r != nil {
						x.Violation = fmt.Errorf("panic in final oracle: %v\n%s", r, stack())
					}
				}()
				if err := h.Final(x); err != nil {
					x.Violation = err
				}
			}()
		}
		cur.Store(nil)
	})
	fill()
	return res
}

func stack() string {
	buf := make([]byte, 16<<10)
	n := runtime.Stack(buf, false)
	return string(buf[:n])
}

// ReportPanic lets a harness thread convert a panic of the code under test
// into a violation (instead of crashing the process).
func (x *Exec) ReportPanic() {
	if r := recover(); r != nil && !x.aborting.Load() {
		x.mu.Lock()
		if x.Violation == nil {
			x.Violation = fmt.Errorf("panic in thread: %v\n%s", r, stack())
		}
		x.mu.Unlock()
	}
}

// Fail records a violation from a thread.
func (x *Exec) Fail(format string, args ...any) {
	x.mu.Lock()
	if x.Violation == nil {
		x.Violation = fmt.Errorf(format, args...)
	}
	x.mu.Unlock()
}

// ---- hooks used by the vsync shim ----

// MuLock is called by the shim before acquiring the real mutex.
func MuLock(m *MuState, read bool) {
	x := cur.Load()
	if x == nil {
		return
	}
	if x.free.Load() {
		x.freeGate()
		return
	}
	g := goid()
	if g == x.ctlGoid {
		// controller goroutine (Setup, events, oracles): must be free
		x.mu.Lock()
		if m.Owner != nil && m.Owner != ctlThread && !x.aborting.Load() {
			x.mu.Unlock()
			panic(engineError{"controller goroutine would block on a mutex held by thread " + m.Owner.Name})
		}
		if read {
			m.Readers++
		} else {
			m.Owner = ctlThread
		}
		x.mu.Unlock()
		return
	}
	kind := "lock"
	if read {
		kind = "rlock"
	}
	x.gateAny(&Op{Kind: kind, Label: kind, Mu: m})
}

var ctlThread = &Thread{Name: "ctl"}

// MuUnlock is called by the shim when releasing.
func MuUnlock(m *MuState, read bool) {
	x := cur.Load()
	if x == nil {
		return
	}
	x.mu.Lock()
	if read {
		if m.Readers > 0 {
			m.Readers--
		}
	} else {
		if m.Owner != nil && m.Owner != ctlThread {
			m.Owner.Held--
		}
		m.Owner = nil
	}
	x.mu.Unlock()
}

// Abandoning reports whether the current execution is being abandoned (threads
// unwind with Goexit and mutual exclusion is no longer maintained).
// FreeMode reports whether a controlled execution is in its teardown, where every thread runs free.
func FreeMode() bool {
	x := cur.Load()
	return x != nil && x.free.Load()
}

// GiveUp is called by the mutex shim in teardown when a goroutine has waited for a mutex for hours of
// virtual time: the mutex will never be released. The goroutine is unwound (deferred unlocks run) so
// that the process survives, and the execution is marked.
func GiveUp(what string) {
	x := cur.Load()
	if x == nil {
		return
	}
	x.mu.Lock()
	if x.TeardownDeadlock == "" {
		x.TeardownDeadlock = what + "\n" + stack()
	}
	x.mu.Unlock()
	runtime.Goexit()
}

func Abandoning() bool {
	x := cur.Load()
	return x != nil && x.aborting.Load()
}

// MuTryLock models TryLock: never a gate.
func MuTryLock(m *MuState) {
	x := cur.Load()
	if x == nil {
		return
	}
	g := goid()
	x.mu.Lock()
	if th := x.threads[g]; th != nil {
		m.Owner = th
		th.Held++
	} else {
		m.Owner = ctlThread
	}
	x.mu.Unlock()
}

// HeldBy reports how many hooked mutexes the named thread holds (for
// invariants such as "never parked at the service seam while holding a lock").
func (x *Exec) HeldBy(name string) int {
	if th := x.byName[name]; th != nil {
		return th.Held
	}
	return 0
}
