package sched_test

import (
	"context"
	"fmt"
	"testing"
	"time"

	"verif/sched"
	"verif/shim/vsync"
)

// toy: non-atomic increment under a hooked mutex -> lost update needs 1 preemption.
func toy(nthreads int) *sched.Harness {
	type st struct {
		mu vsync.Mutex
		n  int
	}
	var s *st
	return &sched.Harness{
		Name: "toy",
		Setup: func(x *sched.Exec) {
			s = &st{}
			for i := 0; i < nthreads; i++ {
				x.Go(fmt.Sprintf("t%d", i), func() {
					s.mu.Lock()
					v := s.n
					s.mu.Unlock()
					s.mu.Lock()
					s.n = v + 1
					s.mu.Unlock()
				})
			}
		},
		Final: func(x *sched.Exec) error {
			x.Outcome = fmt.Sprint(s.n)
			if s.n != nthreads {
				return fmt.Errorf("lost update: n=%d", s.n)
			}
			return nil
		},
	}
}

func TestToy(t *testing.T) {
	h := toy(2)
	st := sched.Explore(t, h, sched.Options{Bound: 0})
	if len(st.Found) != 0 || !st.Exhaustive {
		t.Fatalf("bound 0: %+v", st)
	}
	t.Logf("bound0 execs=%d", st.Execs)
	st = sched.Explore(t, h, sched.Options{Bound: 1, DetEvery: 3})
	t.Logf("bound1 execs=%d outcomes=%v found=%d engineErr=%v", st.Execs, st.Outcomes, len(st.Found), st.EngineErrMsg)
	if len(st.Found) == 0 {
		t.Fatalf("lost update not found")
	}
	t0 := time.Now()
	st = sched.Explore(t, toy(3), sched.Options{Bound: -1})
	t.Logf("unbounded 3 threads execs=%d outcomes=%v in %v (%.0f/s)", st.Execs, st.Outcomes, time.Since(t0), float64(st.Execs)/time.Since(t0).Seconds())
	// sharded runs must partition the executions
	var sum int64
	for sh := 0; sh < 4; sh++ {
		s := sched.Explore(t, toy(3), sched.Options{Bound: -1, Shard: sh, NShards: 4})
		sum += s.Execs
	}
	if sum != st.Execs {
		t.Fatalf("shards sum %d != %d", sum, st.Execs)
	}
}

// timers: a thread sleeps; T must advance virtual time; a context timeout must fire.
func TestTime(t *testing.T) {
	var got time.Duration
	var ctxErr error
	h := &sched.Harness{
		Name: "time",
		Setup: func(x *sched.Exec) {
			x.UseTime = true
			x.Horizon = 10 * time.Minute
			x.Go("sleeper", func() {
				t0 := x.Now()
				time.Sleep(3 * time.Second)
				got = x.Now() - t0
				x.Seam("woke")
			})
			x.Go("waiter", func() {
				ctx, cancel := context.WithTimeout(context.Background(), 5*time.Minute)
				defer cancel()
				<-ctx.Done()
				ctxErr = ctx.Err()
			})
		},
		Final: func(x *sched.Exec) error {
			if x.Done("sleeper") && got != 3*time.Second || x.Done("waiter") && ctxErr != context.DeadlineExceeded {
				return fmt.Errorf("got=%v err=%v", got, ctxErr)
			}
			x.Outcome = "ok"
			return nil
		},
	}
	st := sched.Explore(t, h, sched.Options{Bound: 2})
	t.Logf("execs=%d outcomes=%v found=%v eng=%v", st.Execs, st.Outcomes, st.Found, st.EngineErrMsg)
	if len(st.Found) != 0 || st.EngineErrors != 0 {
		t.Fatal("unexpected")
	}
}

// stuck: a thread that spins through gates forever is cut by the step cap and abandoned.
func TestSpin(t *testing.T) {
	var mu vsync.Mutex
	h := &sched.Harness{
		Name: "spin",
		Setup: func(x *sched.Exec) {
			x.MaxSteps = 200
			x.Go("spinner", func() {
				for {
					mu.Lock()
					mu.Unlock()
				}
			})
		},
	}
	r := sched.Run(t, h, nil)
	if r.Stuck != "stepcap" || r.EngineErr != nil {
		t.Fatalf("stuck=%q err=%v", r.Stuck, r.EngineErr)
	}
}

// A self-deadlock and a lock-order cycle must be reported as violations, every time, without taking the process down.
func TestDeadlock(t *testing.T) {
	self := &sched.Harness{Name: "self", Setup: func(x *sched.Exec) {
		var mu vsync.Mutex
		res := make(chan int, 1)
		x.Go("a", func() {
			go func() { // an untracked helper that blocks on a channel forever
				<-make(chan int)
			}()
			x.Go("worker", func() {
				mu.Lock()
				defer mu.Unlock()
				func() {
					mu.Lock() // never granted
					defer mu.Unlock()
				}()
				res <- 1
			})
			<-res // waits for the worker forever
		})
		x.Go("b", func() {
			mu.Lock()
			mu.Unlock()
		})
	}}
	for i := 0; i < 3; i++ {
		st := sched.Explore(t, self, sched.Options{Bound: 1})
		if len(st.Found) == 0 || st.EngineErrors != 0 {
			t.Fatalf("self-deadlock: found=%d engine=%d %s", len(st.Found), st.EngineErrors, st.EngineErrMsg)
		}
		t.Logf("self: execs=%d %s", st.Execs, st.Found[0].Key)
	}
	cycle := &sched.Harness{Name: "cycle", Setup: func(x *sched.Exec) {
		var m1, m2 vsync.Mutex
		x.Go("a", func() { m1.Lock(); m2.Lock(); m2.Unlock(); m1.Unlock() })
		x.Go("b", func() { m2.Lock(); m1.Lock(); m1.Unlock(); m2.Unlock() })
	}}
	st := sched.Explore(t, cycle, sched.Options{Bound: 0})
	if len(st.Found) != 0 {
		t.Fatalf("cycle at bound 0: %v", st.Found[0].Message)
	}
	st = sched.Explore(t, cycle, sched.Options{Bound: 1})
	if len(st.Found) == 0 || st.EngineErrors != 0 {
		t.Fatalf("lock-order cycle not found: execs=%d engine=%d %s", st.Execs, st.EngineErrors, st.EngineErrMsg)
	}
	t.Logf("cycle: execs=%d outcomes=%v %s", st.Execs, st.Outcomes, st.Found[0].Key)
}
