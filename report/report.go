// Package report is the result format shared by all harnesses and the runner.
package report

import (
	"crypto/sha256"
	"encoding/hex"
	"encoding/json"
	"fmt"
	"os"
	"runtime"
	"sort"
	"strconv"
	"strings"
	"time"
)

// Violation is one property violation found by a harness.
type Violation struct {
	// Key is the canonical signature of the failing case; known findings are
	// matched on it, so it must be stable across runs and specific to the case.
	Key     string `json:"key"`
	Message string `json:"message"`
	Section string `json:"section"`
	// Replay is whatever the harness needs to re-execute exactly this case.
	Replay any `json:"replay"`
}

// Section is the coverage of one engine run within a check.
type Section struct {
	Name        string           `json:"name"`
	Engine      string           `json:"engine"` // sched | seqx | fsx | enum
	Evaluations int64            `json:"evaluations"`
	States      int64            `json:"states"`
	Transitions int64            `json:"transitions"`
	Nontrivial  int64            `json:"distinct_nontrivial"`
	Exhaustive  bool             `json:"exhaustive"`
	Bound       string           `json:"bound,omitempty"`
	Rule        string           `json:"rule,omitempty"`
	Outcomes    map[string]int64 `json:"outcomes,omitempty"`
	Samples     []any            `json:"samples,omitempty"`
	Extra       map[string]int64 `json:"extra,omitempty"`
	Notes       []string         `json:"notes,omitempty"`
	WallS       float64          `json:"wall_s"`
}

// Report is what one worker process writes.
type Report struct {
	Property     string      `json:"property"`
	Tier         string      `json:"tier"`
	Shard        int         `json:"shard"`
	Sections     []*Section  `json:"sections"`
	Violations   []Violation `json:"violations"`
	EngineErrors []string    `json:"engine_errors,omitempty"`
	Assumptions  []string    `json:"assumptions,omitempty"`
	WallS        float64     `json:"wall_s"`
}

// Env is the worker's view of the runner's parameters.
type Env struct {
	Tier     string
	Shard    int
	NShards  int
	Out      string
	Deadline time.Time
	Replay   string
	Seed     int64
	start    time.Time
}

// FromEnv reads VERIF_* variables.
func FromEnv() *Env {
	e := &Env{Tier: os.Getenv("VERIF_TIER"), NShards: 1, start: time.Now()}
	if e.Tier == "" {
		e.Tier = "quick"
	}
	if s := os.Getenv("VERIF_SHARD"); s != "" {
		fmt.Sscanf(s, "%d/%d", &e.Shard, &e.NShards)
	}
	e.Out = os.Getenv("VERIF_OUT")
	if s := os.Getenv("VERIF_BUDGET_S"); s != "" {
		if n, err := strconv.Atoi(s); err == nil && n > 0 {
			e.Deadline = time.Now().Add(time.Duration(n) * time.Second)
		}
	}
	e.Replay = os.Getenv("VERIF_REPLAY")
	if s := os.Getenv("VERIF_SEED"); s != "" {
		e.Seed, _ = strconv.ParseInt(s, 10, 64)
	}
	return e
}

// Thorough reports whether the thorough tier was requested.
func (e *Env) Thorough() bool { return e.Tier == "thorough" }

// Expired reports whether the time budget is used up.
func (e *Env) Expired() bool { return !e.Deadline.IsZero() && time.Now().After(e.Deadline) }

// Mine partitions an enumeration by index.
func (e *Env) Mine(i int64) bool { return e.NShards <= 1 || int(i%int64(e.NShards)) == e.Shard }

// New starts a report.
func (e *Env) New(property string) *Report {
	return &Report{Property: property, Tier: e.Tier, Shard: e.Shard}
}

// Add appends a section.
func (r *Report) Add(s *Section) *Section { r.Sections = append(r.Sections, s); return s }

// Violate records a violation (deduplicated by key).
func (r *Report) Violate(section, key, msg string, replay any) {
	for _, v := range r.Violations {
		if v.Key == key {
			return
		}
	}
	r.Violations = append(r.Violations, Violation{Key: key, Message: msg, Section: section, Replay: replay})
}

// Guard is deferred by every harness right after the report is created. A panic that reaches the
// harness's main goroutine - a set-up step of the code under test that fails although it works on
// the unchanged tree, or the code under test panicking on the harness's goroutine - would otherwise
// end the worker without a verdict; it is recorded as a violation and the report is still written.
func (r *Report) Guard(e *Env) {
	p := recover()
	if p == nil {
		return
	}
	buf := make([]byte, 8<<10)
	buf = buf[:runtime.Stack(buf, false)]
	msg := fmt.Sprint(p)
	first := msg
	if i := strings.IndexByte(first, '\n'); i >= 0 {
		first = first[:i]
	}
	if len(r.Sections) == 0 {
		r.Add(&Section{Name: "harness", Engine: "enum"})
	}
	r.Violate(r.Sections[len(r.Sections)-1].Name, "operation-failed-or-panicked: "+Clip(first, 160),
		"an operation the check relies on (it works on the unchanged tree) failed or panicked: "+msg+"\n"+string(buf), nil)
	for _, s := range r.Sections {
		s.Exhaustive = false
	}
	r.Write(e)
}

// Write stores the report where the runner expects it.
func (r *Report) Write(e *Env) error {
	r.WallS = time.Since(e.start).Seconds()
	if e.Out == "" {
		b, _ := json.MarshalIndent(r, "", " ")
		fmt.Println(string(b))
		return nil
	}
	b, err := json.Marshal(r)
	if err != nil {
		return err
	}
	return os.WriteFile(e.Out, b, 0o644)
}

// Merge combines worker reports section by section.
func Merge(rs []*Report) *Report {
	out := &Report{}
	idx := map[string]*Section{}
	seen := map[string]bool{}
	asm := map[string]bool{}
	for _, r := range rs {
		if out.Property == "" {
			out.Property, out.Tier = r.Property, r.Tier
		}
		if r.WallS > out.WallS {
			out.WallS = r.WallS
		}
		for _, s := range r.Sections {
			m := idx[s.Name]
			if m == nil {
				c := *s
				c.Outcomes = map[string]int64{}
				c.Extra = map[string]int64{}
				c.Samples = nil
				c.Notes = nil
				c.Evaluations, c.States, c.Transitions, c.Nontrivial, c.WallS = 0, 0, 0, 0, 0
				c.Exhaustive = true
				m = &c
				idx[s.Name] = m
				out.Sections = append(out.Sections, m)
			}
			m.Evaluations += s.Evaluations
			m.States += s.States
			m.Transitions += s.Transitions
			m.Nontrivial += s.Nontrivial
			m.Exhaustive = m.Exhaustive && s.Exhaustive
			if s.WallS > m.WallS {
				m.WallS = s.WallS
			}
			for k, v := range s.Outcomes {
				m.Outcomes[k] += v
			}
			for k, v := range s.Extra {
				if strings.HasPrefix(k, "max_") {
					if v > m.Extra[k] {
						m.Extra[k] = v
					}
				} else {
					m.Extra[k] += v
				}
			}
			for _, x := range s.Samples {
				if len(m.Samples) < 4 {
					m.Samples = append(m.Samples, x)
				}
			}
			for _, n := range s.Notes {
				dup := false
				for _, o := range m.Notes {
					dup = dup || o == n
				}
				if !dup {
					m.Notes = append(m.Notes, n)
				}
			}
		}
		for _, v := range r.Violations {
			if !seen[v.Key] {
				seen[v.Key] = true
				out.Violations = append(out.Violations, v)
			}
		}
		out.EngineErrors = append(out.EngineErrors, r.EngineErrors...)
		for _, a := range r.Assumptions {
			if !asm[a] {
				asm[a] = true
				out.Assumptions = append(out.Assumptions, a)
			}
		}
	}
	sort.Slice(out.Violations, func(i, j int) bool { return out.Violations[i].Key < out.Violations[j].Key })
	return out
}

// KeyHash is a short stable hash for replay file names.
func KeyHash(s string) string {
	h := sha256.Sum256([]byte(s))
	return hex.EncodeToString(h[:6])
}

// Clip shortens long strings for messages.
func Clip(s string, n int) string {
	if len(s) <= n {
		return s
	}
	return s[:n] + "…"
}

// OneLine flattens a message.
func OneLine(s string) string { return strings.ReplaceAll(strings.TrimSpace(s), "\n", " | ") }
